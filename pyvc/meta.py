"""Per-property static text used in the evidence files (levels, assumptions, explanations)."""

LEVELS = {"C11": "other", "C20": "other", "C01": "other", "C03": "other", "C05": "other", "C07": "other", "C13": "other", "C14": "other", "C15": "other", "C16": "other", "C18": "other"}  # property -> evidence level; default 'proof'

TRUSTED_COMMON = [
    "pyvc engine (this repository's own VC generator over Python's ast module): its model of Python semantics for the subset used",
    "z3 5.1.0 (Python API) / cvc5 1.0.3 CLI as decision procedures",
    "CPython executes `assert` statements (no -O)",
]

ASSUMPTIONS_COMMON = [
    "Python floats are modelled as mathematical reals (machine rounding ignored); NaN and +-inf are separate type-cases where a scenario lists them",
    "Python ints are mathematical integers (exact)",
    "docstrings, type annotations, logger.* / warnings.warn calls and exception message arguments are dropped by the extraction (no effect on behaviour)",
    "the universe of argument type-cases is the list of scenarios named in coverage.functions / the contract files under /verif/contracts",
]

PROP_ASSUMPTIONS = {
    "C14": ["numpy.exp / numpy.log are uninterpreted real functions; numpy.linspace(a, b, n)[i] = a + i(b-a)/(n-1); numpy.round(x, 0) / numpy.ceil(x) are the nearest (ties to even) / least integer over the reals",
            "the planning loops are proved for concrete plate sizes only (1x1, 2x2; thorough 1x3); to_worklist and the draw budget are not under contract"],
    "C15": ["numpy.random.RandomState(seed).permutation(x): the k-th call returns x rearranged by a bijection of range(len(x)) that depends on (seed, k, len(x)) only (assumed library contract; which bijection is unspecified)",
            "wf(randomizer) is established deductively for plates of at most 2x3 wells only; the method contracts assume it for every shape"],
}
EXPLAIN = {
    "C05": "Mixed: combine_composition, the composition branch of Labware.add, get_well_composition, the removal frame, the initial naming (get_initial_composition, get_trough_component_names, Trough.__init__ on small concrete shapes) are proved together with the mixing-algebra lemmas (coverage.obligations/discharged); operation histories, conservation across labware and naming on larger shapes are explored by the bounded exact-arithmetic monitor (coverage.bounded).",
    "C18": "Mixed: optimize_partition_by (all cases) and partition_by_column for 0-3 symbolic triples are proved (coverage.obligations/discharged); longer lists are explored by the bounded monitor (coverage.bounded).",
    "C15": "Mixed: WellShifter and WellRotator are proved (coverage.obligations/discharged, incl. inverse lemmas); WellRandomizer.randomize_wells/derandomize_wells are proved for every plate shape relative to wf(randomizer), which the constructor contract establishes for small concrete plates with the RandomState permutation an arbitrary seed-determined bijection (assumed library contract); larger plates and real seeds are explored by the bounded monitor (coverage.bounded).",
    "C14": "Mixed: the argument-validation prefix of DilutionPlan.__init__ (all arguments) and its planning loops for concrete 1x1 / 2x2 (thorough 1x3) plates with every real-valued argument symbolic are proved (coverage.obligations/discharged): whole bounded transfer volumes, sources, reported concentrations and totals; larger plans, the draw budget of source columns (known finding) and the execution by to_worklist are explored by the bounded monitor (coverage.bounded) and not counted as proved.",
    "C07": "Mixed: both transfer bodies are proved on 1-triple (quick) / 2-triple (thorough) symbolic shapes without splitting (coverage.obligations/discharged); longer lists, permutations, large-volume splitting and break records are explored by the bounded monitor (coverage.bounded).",
    "C16": "Mixed: syntactic relational obligations between the two transfer bodies, hierarchy and call-site obligations (backend 'ast') and the two refusing base methods (z3) are discharged deductively; operation programs on both devices are compared by the bounded differential monitor (coverage.bounded).",
    "C13": "Mixed: commands.evo_aspirate/evo_dispense (1-2 wells), evo_wash, require_single_column_selection (any shape) and the EvoWorklist.evo_* methods are proved against the EVOware rope of their arguments, the tracked update and the step limit (coverage.obligations/discharged); longer lists and sessions are explored by the bounded monitor (coverage.bounded).",
    "C01": "Mixed: aspirate/dispense (and the functions they rest on: Labware.add/remove, aspirate_well/dispense_well, both get_well_position) are proved (coverage.obligations/discharged); operation sequences, transfer with splitting, distribute and compositions are explored by the bounded replay monitor (coverage.bounded) and not counted as proved.",
    "C03": "Mixed: exceptional postconditions of aspirate/dispense/aspirate_well/dispense_well/__exit__ are proved at every raise exit (coverage.obligations/discharged); failing operation sequences are explored by the bounded fault-injection monitor (coverage.bounded).",
    "C20": "Mixed: Labware.__init__ (symbolic shape) and Trough.__init__ (1-2 columns, helpers inlined) are proved to establish wf(L) / raise ValueError, get_initial_composition and get_trough_component_names are proved for small concrete shapes (coverage.obligations/discharged); larger shapes of the naming helpers and special values are explored by the bounded monitor (coverage.bounded), not proved.",
    "C11": "Mixed: the labware functions (add, remove, log, condense_log, volumes, history) are proved against sequence postconditions (coverage.obligations/discharged); the operation-level clauses (one entry per transfer/distribute per labware, LVH note) are explored by the bounded monitor listed under coverage.bounded and are not counted as proved.",
}
