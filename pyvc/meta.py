"""Per-property static text used in the evidence files (levels, assumptions, explanations)."""

LEVELS = {"C11": "other", "C20": "other"}  # property -> evidence level; default 'proof'

TRUSTED_COMMON = [
    "pyvc engine (this repository's own VC generator over Python's ast module): its model of Python semantics for the subset used",
    "z3 5.1.0 (Python API) / cvc5 1.0.3 CLI as decision procedures",
    "CPython executes `assert` statements (no -O)",
]

ASSUMPTIONS_COMMON = [
    "Python floats are modelled as mathematical reals (machine rounding ignored); NaN and +-inf are separate type-cases where a scenario lists them",
    "Python ints are mathematical integers (exact)",
    "docstrings, type annotations, logger.* / warnings.warn calls and exception message arguments are dropped by the extraction (no effect on behaviour)",
    "the universe of argument type-cases is the list of scenarios named in coverage.functions / the contract files under /verif/contracts",
]

PROP_ASSUMPTIONS = {}
EXPLAIN = {
    "C20": "Mixed: Labware.__init__ is proved to establish wf(L) / raise ValueError (coverage.obligations/discharged); Trough.__init__, the trough naming helper and the initial composition are explored by the bounded monitor (coverage.bounded), not proved.",
    "C11": "Mixed: the labware functions (add, remove, log, condense_log, volumes, history) are proved against sequence postconditions (coverage.obligations/discharged); the operation-level clauses (one entry per transfer/distribute per labware, LVH note) are explored by the bounded monitor listed under coverage.bounded and are not counted as proved.",
}
