"""./check <PROPERTY> <quick|thorough>   |   ./check --replay <path>

Exit codes: 0 property held on everything explored; 1 violation (a VIOLATION line was printed);
2 undecided (unknown / unsupported construct / stale contract); 3 internal error of the checker.
"""
from __future__ import annotations

import hashlib
import importlib
import json
import multiprocessing as mp
import os
import re
import subprocess
import sys
import time
import traceback

sys.setrecursionlimit(20000)

VERIF = os.path.dirname(os.path.dirname(os.path.abspath(__file__)))
EVIDENCE_DIR = os.environ.get("PYVC_EVIDENCE_DIR")
REPLAY_ROOT = os.environ.get("PYVC_REPLAY_DIR") or VERIF  # scratch runs write their replay files elsewhere  # scratch runs (mutant trials) must not overwrite the committed evidence
REPO = os.environ.get("PYVC_REPO", "/repo")
NATIVE_PY = os.environ.get("PYVC_NATIVE_PY", "/venv/bin/python")
CONTRACT_MODULES = ["c06", "c19", "c10", "c18", "c08", "c12", "c09", "c17", "c02", "c11", "c20", "c05", "c13", "c15",
                    "c01", "c03", "c04", "c07", "c16", "c14"]


LEAN_LEMMAS = {"C09": [("SplitJoin.lean", "split_join_fields: splitOn sep (intercalate [sep] fields) = fields for separator-free fields")],
               "C17": [("SplitJoin.lean", "split_join_fields (records joined by line breaks)")]}


def load_world():
    from . import spec
    from .engine import World

    w = World()
    w.spec_ns.update(spec.NS)
    loaded = []
    for m in CONTRACT_MODULES:
        path = os.path.join(VERIF, "contracts", m + ".py")
        if not os.path.exists(path):
            continue
        mod = importlib.import_module("contracts." + m)
        mod.install(w)
        loaded.append(m)
    apply_known_findings(w)
    return w


def known_findings():
    p = os.path.join(VERIF, "known_findings.json")
    if not os.path.exists(p):
        return []
    with open(p) as fh:
        return json.load(fh)["findings"]


def apply_known_findings(w):
    for kf in known_findings():
        if kf.get("kind") != "known" or "exclude" not in kf:
            continue
        ct = w.contracts.get(kf.get("contract"))
        if ct is None:
            continue
        for sc in ct.scenarios:
            if kf.get("scenario") in (None, sc.name):
                sc.requires.append(f"not ({kf['exclude']})")


# ----------------------------------------------------------------------------- describing models


def describe(v, model, depth=0):
    import z3

    from . import ops, prove
    from .lib import Arr0V
    from .values import Arr2V, EnumV, MapV, Obj, Opaque, SeqV, SetV, Sym, WellV

    if depth > 6:
        return {"t": "opaque"}
    if v is None:
        return {"t": "none"}
    if isinstance(v, bool):
        return {"t": "bool", "v": v}
    if isinstance(v, ops.FloatQ):
        return {"t": "float", "v": f"{v.numerator}/{v.denominator}"}
    if isinstance(v, int):
        return {"t": "int", "v": v}
    if isinstance(v, float):
        if ops.special_float(v):
            return {"t": "special", "v": repr(v)}
        return {"t": "float", "v": str(__import__("fractions").Fraction(v))}
    if isinstance(v, str):
        return {"t": "str", "v": v}
    if isinstance(v, Sym):
        val = prove.model_value(model, v.t)
        if v.ty == "int":
            return {"t": "npint" if v.np else "int", "v": val}
        if v.ty == "real":
            return {"t": "float", "v": str(val)}
        if v.ty == "bool":
            return {"t": "bool", "v": bool(val)}
        return {"t": "str", "v": val}
    if isinstance(v, EnumV):
        val = v.value if isinstance(v.value, int) else prove.model_value(model, v.value.t)
        return {"t": "tip", "v": val}
    if isinstance(v, WellV):
        r = v.r if isinstance(v.r, int) else prove.model_value(model, v.r)
        c = v.c if isinstance(v.c, int) else prove.model_value(model, v.c)
        if 0 <= r < 26 and c >= 0:
            return {"t": "str", "v": f"{ops.ROW_LETTERS[r]}{c:02d}"}
        return {"t": "str", "v": f"?{r}:{c}"}
    if isinstance(v, SeqV):
        n = ops.seq_len(v)
        if not isinstance(n, int):
            n = prove.model_value(model, n)
        n = max(0, min(int(n), 64))
        items = []
        for i in range(n):
            try:
                items.append(describe(ops.seq_get(None, v, i) if v.is_concrete_len() else _sym_get(v, i, model), model, depth + 1))
            except Exception:
                items.append({"t": "opaque"})
        return {"t": {"list": "list", "tuple": "tuple", "array": "array"}[v.kind], "v": items}
    if isinstance(v, Arr2V):
        R = v.rows if isinstance(v.rows, int) else prove.model_value(model, v.rows)
        Cn = v.cols if isinstance(v.cols, int) else prove.model_value(model, v.cols)
        R, Cn = max(0, min(int(R), 32)), max(0, min(int(Cn), 32))
        return {"t": "array2", "v": [[describe(v.fn(i, j), model, depth + 1) for j in range(Cn)] for i in range(R)]}
    if isinstance(v, Arr0V):
        return describe(v.v, model, depth + 1)
    if isinstance(v, MapV) and v.is_concrete():
        return {"t": "dict", "v": [[describe(k, model, depth + 1), describe(x, model, depth + 1)] for k, x in v.items]}
    if isinstance(v, SetV):
        return {"t": "set", "v": [describe(x, model, depth + 1) for x in v.items]}
    if isinstance(v, Obj) and "__native__" in v.fields:
        return v.fields["__native__"](model, describe)
    return {"t": "opaque", "v": type(v).__name__}  # Obj without a native recipe (e.g. uninitialised self) / Opaque values


def _sym_get(v, i, model):
    """element i of a sequence whose segment lengths are symbolic: resolve lengths in the model"""
    from . import ops, prove
    from .values import Lit

    off = 0
    for s in v.segs:
        ln = ops.seg_len(s)
        if not isinstance(ln, int):
            ln = int(prove.model_value(model, ln))
        if i < off + ln:
            return s.items[i - off] if isinstance(s, Lit) else s.fn(i - off)
        off += ln
    raise IndexError


# ----------------------------------------------------------------------------- worker


def run_task(task):
    """(func, scenario name, timeout_ms, prop) -> dict"""
    func, scname, timeout_ms, prop = task[:4]
    shard, nshards = (task[4], task[5]) if len(task) > 4 else (0, 1)
    tier_samples = 10 if timeout_ms <= 10000 else 40
    t0 = time.time()
    out = {"func": func, "scenario": scname, "paths": [], "vcs": [], "error": None, "shard": shard}
    try:
        from . import prove
        from .contract import verify_scenario

        w = load_world()
        if func.startswith("lemma:"):
            from .contract import verify_lemma

            lem = [l for l in w.lemmas if l.name == func[6:]][0]
            ct, sc = None, None
            results = verify_lemma(w, lem)
        else:
            ct = w.contracts[func]
            sc = [s for s in ct.scenarios if s.name == scname][0]
            by_vc = getattr(ct, "shard_by", "path") == "vc"  # few paths with many slow obligations: split the obligations instead
            results = verify_scenario(w, ct, sc) if by_vc else verify_scenario(w, ct, sc, shard=shard, nshards=nshards)
        vc_index = 0
        for r in results:
            if shard == 0 or not (ct is not None and getattr(ct, "shard_by", "path") == "vc"):
                out["paths"].append({"outcome": r.outcome, "detail": r.detail, "trace": [f"{t}={c}" for t, c in r.trace][:40]})
            for vc in r.vcs:
                props = vc.meta.get("props") or (ct.serves if ct else [prop])
                if prop not in props and vc.meta.get("kind") in ("ensures", "exc-ensures") and not (
                        ct is not None and prop not in ct.serves and ct.fresh_result is not None):  # callers assume the ensures of such callees
                    continue
                vc_index += 1
                if ct is not None and getattr(ct, "shard_by", "path") == "vc" and vc_index % nshards != shard:
                    continue
                v = prove.discharge(vc, timeout_ms)
                d = {"name": vc.name, "status": v.status, "backend": v.backend, "secs": round(v.secs, 4),
                     "kind": vc.meta.get("kind", ""), "text": vc.meta.get("text", ""), "smt_size": v.smt_size,
                     "reason": v.reason, "path": r.outcome, "trace": [f"{t}={c}" for t, c in r.trace][:40]}
                if v.status == "refuted" and ct is None:
                    d["args"] = None
                    d["model"] = {k: s for k, s in prove._model_dict(v.model).items() if "!" not in k}
                elif v.status == "refuted":
                    # concretise the scenario arguments under the counter-model
                    try:
                        from .engine import Exec, Path

                        p2 = Path([])
                        e2 = Exec(w, p2)
                        env = sc.make(e2)
                        d["args"] = {k: describe(val, v.model) for k, val in env.items() if not k.startswith("ghost_")}
                        d["args"] = {k: a for k, a in d["args"].items() if not (a.get("t") == "opaque" and a.get("v") == "Obj")}
                        d["model"] = {k: s for k, s in prove._model_dict(v.model).items() if "!" not in k}
                    except Exception as e:  # noqa
                        d["args"] = None
                        d["model_error"] = repr(e)
                out["vcs"].append(d)
        # ---- path-directed inputs for the native (bounded) evaluation of the same contract on the real code
        if ct is not None and ct.native and ct.native.get("call"):
            if shard == 0 or getattr(ct, "shard_by", "path") != "vc":
                out["samples"] = sample_inputs(w, ct, sc, results, tier_samples if shard == 0 else 0, pins=shard == 0)
        from . import lib

        out["lib_used"] = sorted(lib.USED)
        out["dropped"] = sorted(w.dropped)
    except Exception:
        out["error"] = traceback.format_exc()
    out["secs"] = round(time.time() - t0, 3)
    if os.environ.get("PYVC_PROFILE"):
        from . import prove as _pv

        vs = out.get("vcs", [])
        print(f"PROFILE {task[0].split('.')[-1]} [{task[1]}] shard={task[4] if len(task) > 4 else '-'} wall={out['secs']} vcs={len(vs)} "
              f"vc_secs={sum(v['secs'] for v in vs):.1f} nonproved={sum(1 for v in vs if v['status'] != 'proved')} tally={_pv._tally():.0f}", file=sys.stderr, flush=True)
    return out


def sample_inputs(w, ct, sc, results, extra, pins=True):
    """Concrete argument tuples: one per explored path (a model of its path condition) plus `extra` models of the
    scenario's precondition with randomly pinned numeric parameters."""
    import random

    import z3

    from . import prove
    from .contract import clause_truth
    from .engine import Exec, Path

    out, seen = [], set()

    def add(model, origin):
        try:
            p2 = Path([])
            e2 = Exec(w, p2)
            env = sc.make(e2)
            args = {k: describe(val, model) for k, val in env.items() if not k.startswith("ghost_")}
            args = {k: v for k, v in args.items() if not (v.get("t") == "opaque" and v.get("v") == "Obj")}  # the uninitialised `self` of a constructor
        except Exception:  # noqa
            return
        key = json.dumps(args, sort_keys=True, default=str)
        if key not in seen:
            seen.add(key)
            out.append({"args": args, "origin": origin})

    for r in results:
        pc = getattr(r, "pc", None)
        if not pc or r.outcome in ("infeasible",):
            continue
        s = z3.Solver()
        s.set("timeout", 1500)
        for c in pc:
            s.add(c)
        if s.check() == z3.sat:
            add(s.model(), f"path:{r.outcome}")
    # random pins on the precondition
    base = Path([])
    e0 = Exec(w, base)
    try:
        env = sc.make(e0)
        fv = w.funcv(ct.func)
        cenv = dict(env)
        for req in list(ct.requires) + list(sc.requires):
            base.assume(clause_truth(e0, req, cenv, fv.mi))
    except Exception:  # noqa
        return out
    import zlib

    rng = random.Random(zlib.crc32(f"{ct.key}|{sc.name}".encode()))

    class _VC:
        pc = base.pc
        goal = z3.BoolVal(True)

    params = prove._free_numeric_params(_VC)
    ints = [0, 1, 2, 3, 4, 5, 7, 8, 9, 10, 11, 12, 16, 96, 100]
    reals = ["0", "1", "2", "5/2", "1/2", "10", "100", "950", "1/10", "33/10", "1000"]
    s = z3.Solver()
    s.set("timeout", 800)
    for c in base.pc:
        s.add(c)
    byname = {str(prm): prm for prm in params}
    for pin in (getattr(sc, "pins", []) if pins else []):
        s.push()
        for k, val in pin.items():
            if isinstance(val, str):
                s.add(z3.String(k) == z3.StringVal(val))
            elif k in byname:
                s.add(byname[k] == (val if z3.is_int(byname[k]) else z3.RealVal(str(val))))
            else:
                s.add((z3.Int(k) if isinstance(val, int) else z3.Real(k)) == (val if isinstance(val, int) else z3.RealVal(str(val))))
        try:
            if s.check() == z3.sat:
                add(s.model(), "pin")
        except z3.Z3Exception:
            pass
        s.pop()
    for _ in range(extra):
        s.push()
        for prm in params:
            if rng.random() < 0.5:
                continue
            s.add(prm == (rng.choice(ints) if z3.is_int(prm) else z3.RealVal(rng.choice(reals))))
        try:
            if s.check() == z3.sat:
                add(s.model(), "random-pin")
        except z3.Z3Exception:
            pass
        s.pop()
    return out


# ----------------------------------------------------------------------------- native replay


def native_run(job, timeout=120):
    env = dict(os.environ)
    env["PYTHONPATH"] = f"{REPO}:{VERIF}"
    try:
        p = subprocess.run([NATIVE_PY, "-m", "pyvc.native_worker"], input=json.dumps(job), capture_output=True, text=True,
                           timeout=timeout, env=env, cwd=VERIF)
    except subprocess.TimeoutExpired:
        return {"error": "timeout"}
    if p.returncode != 0:
        return {"error": p.stderr[-2000:]}
    try:
        return json.loads(p.stdout)
    except json.JSONDecodeError:
        return {"error": "bad output: " + p.stdout[-500:]}


def native_batch(jobs, timeout=600):
    if not jobs:
        return []
    env = dict(os.environ)
    env["PYTHONPATH"] = f"{REPO}:{VERIF}"
    try:
        p = subprocess.run([NATIVE_PY, "-m", "pyvc.native_worker", "--batch"], input=json.dumps(jobs), capture_output=True, text=True,
                           timeout=timeout, env=env, cwd=VERIF)
        return json.loads(p.stdout)
    except Exception as e:  # noqa
        return [{"error": f"batch failed: {e!r}"} for _ in jobs]


def build_job(ct, args, only_clause=None):
    nat = ct.native or {}
    job = {"imports": nat.get("imports", []), "setup": nat.get("setup", ""), "call": nat.get("call"), "args": args,
           "observe": nat.get("observe", {}), "clauses": [], "raises": [[e, c] for e, c in ct.raises if c is not None] if nat.get("check_raises", True) else None}
    for cid, expr, props in ct.ensures:
        job["clauses"].append({"id": f"ensures[{cid}]", "text": nat.get("clause_text", {}).get(cid, expr), "when": "return"})
    if ct.returns is not None and nat.get("returns_native", True):
        job["clauses"].append({"id": "returns", "text": f"same(result, {ct.returns})", "when": "return"})
    for cid, expr, props in ct.exc_ensures:
        job["clauses"].append({"id": f"exc-ensures[{cid}]", "text": nat.get("clause_text", {}).get(cid, expr), "when": "raise"})
    return job


# ----------------------------------------------------------------------------- main check


def safe(s):
    return re.sub(r"[^A-Za-z0-9_.\-\[\]]", "_", s)[:150]


def check_property(prop, tier, seed):
    from . import prove

    t0 = time.time()
    w = load_world()
    contracts = [ct for ct in w.contracts.values() if prop in ct.serves]
    # modularity: a caller is checked against the contracts of its callees, so the check of a property also discharges
    # the contracts it relies on at call sites (transitively): a change inside a callee that breaks the callee's contract
    # is then reported by this check too, not only by the check of the property the callee's contract was written for
    seen = {ct.key for ct in contracts}
    work = list(contracts)
    while work:
        ct = work.pop()
        for callee, pol in (ct.policy or {}).items():
            cc = w.contracts.get(callee) if pol == "contract" else None
            if cc is not None and cc.key not in seen and cc.scenarios and not getattr(cc, "heavy", False):
                seen.add(cc.key)
                cc.dependency_of = getattr(cc, "dependency_of", set()) | {prop}
                contracts.append(cc)
                work.append(cc)
    timeout_ms = 10000 if tier == "quick" else 60000
    tasks = []
    for ct in contracts:
        for sc in ct.scenarios:
            if tier == "quick" and getattr(sc, "thorough_only", False):
                continue
            n = getattr(ct, "shards", 1)
            if getattr(ct, "shard_big_only", False) and not getattr(sc, "thorough_only", False):
                n = 1  # shallow path trees gain nothing from path sharding (every shard walks the top of the tree)
            tasks.extend((ct.key, sc.name, timeout_ms, prop, i, n) for i in range(n))
    tasks += [("lemma:" + l.name, "lemma", timeout_ms, prop) for l in w.lemmas if prop in l.serves]
    results = []
    if tasks:
        ctx = mp.get_context("fork")
        prove.SHARED_TALLY = ctx.Value("d", 0.0)  # seconds spent on non-proved obligations, shared by the (forked) workers
        with ctx.Pool(min(16, max(1, len(tasks)))) as pool:
            results = pool.map(run_task, tasks, chunksize=1)
    violations, undecided, internal = [], [], []
    n_obl = n_dis = 0
    by_backend = {}
    solver_time = 0.0
    functions = {}
    samples = []
    slowest = []
    lib_used, dropped = set(), set()
    reach = {}
    for res in results:
        key = res["func"]
        f = functions.setdefault(key, {"function": key, "source_sha256_16": (w.repo.source_hash(w.contracts[key].func) if not key.startswith("lemma:") else "-"), "scenarios": 0, "paths": 0,
                                       "obligations": 0, "exits": {}})
        if res.get("shard", 0) == 0:
            f["scenarios"] += 1
        if not key.startswith("lemma:") and prop not in w.contracts[key].serves:
            f["role"] = "callee contract relied on at call sites of the functions above (discharged here as well)"
        if res["error"]:
            internal.append(f"{key}[{res['scenario']}]: {res['error'][-800:]}")
            continue
        lib_used.update(res.get("lib_used", []))
        dropped.update(res.get("dropped", []))
        live = 0
        for p in res["paths"]:
            f["paths"] += 1
            f["exits"][p["outcome"]] = f["exits"].get(p["outcome"], 0) + 1
            if p["outcome"] == "unsupported":
                undecided.append(f"{key}[{res['scenario']}]: unsupported: {p['detail']}")
            if p["outcome"] in ("return", "lemma", "beyond-reach") or p["outcome"].startswith("raise:"):
                live += 1
            if p["outcome"] == "beyond-reach":
                f.setdefault("beyond_reach", [])
                if p["detail"][:100] not in f["beyond_reach"]:
                    f["beyond_reach"].append(p["detail"][:100])
        rk = reach.setdefault((key, res["scenario"]), [0, False])
        rk[0] += live
        rk[1] = rk[1] or any(p["outcome"] == "unsupported" for p in res["paths"])
        for d in res["vcs"]:
            n_obl += 1
            f["obligations"] += 1
            solver_time += d["secs"]
            if d["status"] == "proved":
                n_dis += 1
                by_backend[d["backend"]] = by_backend.get(d["backend"], 0) + 1
            elif d["status"] == "refuted":
                violations.append((res, d))
            else:
                undecided.append(f"{d['name']} [{res['scenario']}]: solver gave unknown ({d['reason']})")
            slowest.append((d["secs"], d["name"], res["scenario"]))
            if len(samples) < 6 and d["status"] == "proved" and d["kind"] in ("ensures", "raises", "invariant"):
                samples.append({"obligation": d["name"], "scenario": res["scenario"], "clause": d["text"], "path": d["path"],
                                "smt_chars": d["smt_size"], "backend": d["backend"], "secs": d["secs"]})
    slowest.sort(reverse=True)
    for (key, scn), (live, unsup) in reach.items():  # vacuity guard, over the union of the shards of a scenario
        if live == 0 and not unsup and not any(r2["error"] for r2 in results if r2["func"] == key and r2["scenario"] == scn):
            internal.append(f"{key}[{scn}]: no reachable exit (vacuous scenario: contradictory requires/invariants?)")
    # ---- static (syntactic) obligations: relational equality of sibling bodies, hierarchy facts, frame clauses
    from . import static

    static_fail = []
    for fn in static.CHECKS.get(prop, []):
        t1 = time.time()
        try:
            obls = fn(w)
        except Exception as e:  # noqa
            undecided.append(f"static obligations {fn.__name__}: stale (source layout changed): {e!r}")
            continue
        f = functions.setdefault("static:" + fn.__name__, {"function": "static:" + fn.__name__ + " (ast of the real source)", "source_sha256_16": "-",
                                                             "scenarios": 1, "paths": 0, "obligations": 0, "exits": {}})
        for name, ok, detail in obls:
            n_obl += 1
            f["obligations"] += 1
            if ok:
                n_dis += 1
                by_backend["ast"] = by_backend.get("ast", 0) + 1
                if len([x for x in samples if x.get("backend") == "ast"]) < 2:
                    samples.append({"obligation": name, "backend": "ast", "clause": detail or "syntactic equality / frame clause holds"})
            else:
                static_fail.append((name, detail))
        solver_time += time.time() - t1
    # ---- generic lemmas checked by Lean (list induction is outside SMT's reach)
    for lemma_file, lemma_name in LEAN_LEMMAS.get(prop, []):
        t1 = time.time()
        try:
            lp = subprocess.run(["lean", os.path.join(VERIF, "lean", lemma_file)], capture_output=True, text=True, timeout=300)
            ok_lean = lp.returncode == 0 and "error" not in (lp.stdout + lp.stderr).lower() and "sorry" not in (lp.stdout + lp.stderr).lower()
            detail = (lp.stdout + lp.stderr)[-300:]
        except Exception as e:  # noqa
            ok_lean, detail = False, repr(e)
        n_obl += 1
        f = functions.setdefault("lean:" + lemma_file, {"function": f"lemma {lemma_name} ({lemma_file}, Lean 4 core)", "source_sha256_16": "-", "scenarios": 1,
                                                         "paths": 0, "obligations": 0, "exits": {}})
        f["obligations"] += 1
        solver_time += time.time() - t1
        if ok_lean:
            n_dis += 1
            by_backend["lean"] = by_backend.get("lean", 0) + 1
        else:
            undecided.append(f"Lean lemma {lemma_name} not checked: {detail}")
    # ---- bounded / native parts
    bounded = run_bounded(prop, tier, seed)
    # path-directed native evaluation of the contracts on the real code (bounded, never counted as proved)
    jobs, jobmeta = [], []
    for res in results:
        ct = w.contracts.get(res["func"])
        for smp in res.get("samples", []) or []:
            jobs.append(build_job(ct, smp["args"]))
            jobmeta.append((res, smp))
    outs = []
    for i in range(0, len(jobs), 40):
        outs.extend(native_batch(jobs[i:i + 40]))
    nat_fail, nat_parts = [], {}
    for (res, smp), job, o in zip(jobmeta, jobs, outs):
        key = res["func"]
        d = nat_parts.setdefault(key, {"function": key, "kind": "path-directed native evaluation of the contract clauses on the real function",
                                       "evaluations": 0, "errors": 0, "bound": "one input per explored symbolic path + randomly pinned models of the precondition"})
        if o.get("error"):
            d["errors"] += 1
            continue
        d["evaluations"] += 1
        if o.get("failed"):
            nat_fail.append((res, smp, job, o))
    bounded.setdefault("parts", []).extend(nat_parts.values())
    bounded["evaluations"] = bounded.get("evaluations", 0) + sum(d["evaluations"] for d in nat_parts.values())
    bounded["distinct"] = bounded.get("distinct", 0) + sum(d["evaluations"] for d in nat_parts.values())
    if not bounded.get("rule"):
        bounded["rule"] = "native evaluations are distinct argument tuples (deduplicated by value); each drives a distinct symbolic path or pin"
    # ---- report
    lines = []
    vio_count = 0
    os.makedirs(os.path.join(REPLAY_ROOT, "replays", prop), exist_ok=True)
    groups = {}
    for res, d in violations:
        groups.setdefault((d["name"], res["scenario"]), []).append((res, d))
    for ident, cands in groups.items():
        res, d = cands[0]
        ct = w.contracts.get(res["func"])
        rp = os.path.join("replays", prop, safe(f"{d['name'].split('/')[-1]}__{res['func'].split('.')[-1]}__{res['scenario']}") + ".json")
        confirmed = False
        nat = job = None
        if ct is not None and ct.native and ct.native.get("call"):
            # replay the counter-models of this obligation (one per refuted path, at most 6) on the real code; keep the first that fails there
            tries = [(r2, d2) for r2, d2 in cands if d2.get("args") is not None][:6]
            jobs2 = [build_job(ct, d2["args"]) for _, d2 in tries]
            outs2 = native_batch(jobs2) if jobs2 else []
            for (r2, d2), j2, o2 in zip(tries, jobs2, outs2):
                if nat is None:
                    res, d, job, nat = r2, d2, j2, o2
                if o2.get("failed"):
                    res, d, job, nat, confirmed = r2, d2, j2, o2, True
                    break
        replay = {"property": prop, "obligation": d["name"], "scenario": res["scenario"], "function": res["func"],
                  "clause": d["text"], "kind": d["kind"], "path_outcome": d["path"], "branch_trace": d["trace"],
                  "solver": {"backend": d["backend"], "status": "sat (counter-model)", "model": d.get("model")},
                  "args": d.get("args"), "native": nat, "confirmed": confirmed, "refuted_paths": len(cands)}
        if job is not None:
            replay["native_job"] = job
        with open(os.path.join(REPLAY_ROOT, rp), "w") as fh:
            json.dump(replay, fh, indent=1, default=str)
        vio_count += 1
        lines.append(f"VIOLATION property={prop} replay={rp}" + ("" if confirmed else " no-failing-input-found"))
    for name, detail in static_fail:
        rp = os.path.join("replays", prop, safe("static__" + name.replace("/", "_")) + ".json")
        with open(os.path.join(REPLAY_ROOT, rp), "w") as fh:
            json.dump({"property": prop, "obligation": name, "kind": "static obligation over the ast of the real source", "detail": detail,
                       "solver": {"backend": "ast", "status": "refuted (syntactic obligation does not hold); no input is produced by this back end"},
                       "confirmed": False}, fh, indent=1)
        vio_count += 1
        lines.append(f"VIOLATION property={prop} replay={rp} no-failing-input-found")
    seen_nat = set()
    for res, smp, job, o in nat_fail:
        ident = (res["func"], res["scenario"], tuple(sorted(o["failed"])))
        if ident in seen_nat:
            continue
        seen_nat.add(ident)
        rp = os.path.join("replays", prop, safe(f"native__{res['func'].split('.')[-1]}__{res['scenario']}__{o['failed'][0]}") + ".json")
        with open(os.path.join(REPLAY_ROOT, rp), "w") as fh:
            json.dump({"property": prop, "obligation": f"{res['func']}/{o['failed'][0]}", "scenario": res["scenario"], "function": res["func"],
                       "kind": "native contract evaluation (bounded)", "origin": smp["origin"], "args": smp["args"], "native_job": job,
                       "native": o, "confirmed": True}, fh, indent=1, default=str)
        vio_count += 1
        lines.append(f"VIOLATION property={prop} replay={rp}")
    for b in bounded.get("failures", []):
        vio_count += 1
        lines.append(f"VIOLATION property={prop} replay={b['replay']}")
    for kf in known_findings():
        if kf.get("kind") == "known" and kf.get("property") == prop:
            lines.append(f"KNOWN-FINDING: property={prop} {kf['what']}")
    selftest = None
    if tier == "thorough" and not os.environ.get("PYVC_NO_SELFTEST") and REPO == "/repo":
        selftest = seeded_selftest(prop)
    wall = time.time() - t0
    level = LEVELS.get(prop, "proof")
    trusted = sorted(lib_used) + [f"dropped by extraction: {x}" for x in sorted(dropped)] + TRUSTED_COMMON
    coverage = {
        "obligations": n_obl, "discharged": n_dis,
        "checker_cmd": f"./check {prop} {tier}  (pyvc: Python ast of {REPO} -> VCs -> z3 {z3_version()}, cvc5 CLI for unknowns)",
        "trusted_base": trusted,
        "functions": list(functions.values()), "by_backend": by_backend, "solver_time_s": round(solver_time, 3),
        "slowest": [{"secs": s, "obligation": n, "scenario": sc} for s, n, sc in slowest[:5]],
        "samples": (samples + [{"bounded_case": x} for x in (bounded.get("samples") or [])[:3]]) or [{"note": "no discharged ensures/raises obligation to show"}],
        "undecided": undecided[:20], "bounded": bounded.get("parts", []),
        "explanation": EXPLAIN.get(prop, ""),
        "seeded_defect_selftest": selftest,
        "evaluations": bounded.get("evaluations", 0), "distinct_nontrivial": bounded.get("distinct", 0),
        "rule": bounded.get("rule", ""),
    }
    ev = {"property_id": prop, "tier": tier, "seed": seed, "level": level, "coverage": coverage,
          "assumptions": ASSUMPTIONS_COMMON + PROP_ASSUMPTIONS.get(prop, []) + callee_assumptions(w, contracts, prop), "wall_s": round(wall, 2), "violations": vio_count}
    evdir = EVIDENCE_DIR or os.path.join(VERIF, "evidence")
    os.makedirs(evdir, exist_ok=True)
    with open(os.path.join(evdir, f"{prop}.json"), "w") as fh:
        json.dump(ev, fh, indent=1, default=str)
    for ln in lines:
        print(ln)
    print(f"[{prop}] {tier}: {n_dis}/{n_obl} obligations discharged over {len(functions)} functions "
          f"({sum(f['paths'] for f in functions.values())} paths), solver {solver_time:.1f}s, bounded evaluations "
          f"{bounded.get('evaluations', 0)}, wall {wall:.1f}s")
    if internal or bounded.get("error"):
        for x in internal:
            print("INTERNAL:", x)
        if bounded.get("error"):
            print("INTERNAL (bounded):", bounded["error"])
        if not vio_count:
            return 3
        # a violation was reported (VIOLATION lines above, each with its replay file): that is the verdict of this run even
        # though another part of the checker could not cope with this tree (reported above as INTERNAL)
    if vio_count:
        return 1
    if undecided:
        for u in undecided[:20]:
            print("UNDECIDED:", u)
        return 2
    if n_obl == 0 and not bounded.get("evaluations"):
        print("INTERNAL: zero obligations generated")
        return 3
    return 0


def callee_assumptions(w, contracts, prop):
    """contracts of callees that this run relies on at call sites without discharging them itself"""
    out = set()
    for ct in contracts:
        for callee, pol in (ct.policy or {}).items():
            short = callee.split("robotools.")[-1]
            if pol == "contract":
                cc = w.contracts.get(callee)
                if cc is None:
                    out.add(f"call sites of {short} use a contract that is not registered (unsupported at run time)")
                elif prop not in cc.serves and (not cc.scenarios or getattr(cc, "heavy", False)):
                    out.add(f"call sites of {short} are checked against its contract, which is discharged by the check(s) of {', '.join(cc.serves)} (assumed here)")
                elif not cc.scenarios:
                    out.add(f"call sites of {short} use an assumed summary (no scenario of its own is verified)")
            elif callable(pol):
                out.add(f"call sites of {short} use an opaque call-site summary (its own contract is verified separately, for the shapes its scenarios list)")
    return sorted(out)


def seeded_selftest(prop):
    """Thorough tier only: the quick check of this property is run against each seeded property-breaking change of
    /verif/seeded that targets it, on a scratch copy of /repo's working tree (removed afterwards).  Informational: the
    outcome is recorded in the evidence and never changes the verdict on /repo."""
    import shutil
    import tempfile

    out = []
    sd = os.path.join(VERIF, "seeded")
    if not os.path.isdir(sd):
        return out
    names = sorted(n for n in os.listdir(sd) if n.startswith(prop + "_"))
    names = names[-3:]  # the three most recent seeded changes of this property (all of them: tools/matrix.py, seeded/MATRIX.md)
    for n in names:
        tmp = tempfile.mkdtemp(prefix="pyvc_selftest_")
        try:
            shutil.copytree(os.path.join(REPO, "robotools"), os.path.join(tmp, "robotools"))
            if os.path.isdir(os.path.join(REPO, "robotools.egg-info")):
                shutil.copytree(os.path.join(REPO, "robotools.egg-info"), os.path.join(tmp, "robotools.egg-info"))
            ap = subprocess.run(["git", "apply", "--unsafe-paths", f"--directory={tmp}", os.path.join(sd, n, "patch.diff")], cwd=tmp,
                                capture_output=True, text=True)
            if ap.returncode != 0:
                ap = subprocess.run(["patch", "-p1", "-s", "-i", os.path.join(sd, n, "patch.diff")], cwd=tmp, capture_output=True, text=True)
            if ap.returncode != 0:
                out.append({"seeded": n, "applies": False})
                continue
            env = dict(os.environ, PYVC_REPO=tmp, PYVC_EVIDENCE_DIR=os.path.join(tmp, "evidence"), PYVC_NO_SELFTEST="1", PYVC_REPLAY_DIR=os.path.join(tmp, "replays"))
            p = subprocess.run([os.path.join(VERIF, "check"), prop, "quick"], cwd=VERIF, env=env, capture_output=True, text=True, timeout=3000)
            vio = [ln for ln in p.stdout.splitlines() if ln.startswith("VIOLATION")]
            out.append({"seeded": n, "applies": True, "exit": p.returncode, "violations_reported": len(vio),
                        "by_deductive_obligation": sum(1 for v in vio if "/bounded_" not in v and "/native__" not in v),
                        "by_bounded_or_native": sum(1 for v in vio if "/bounded_" in v or "/native__" in v), "detected": p.returncode == 1})
        except Exception as e:  # noqa
            out.append({"seeded": n, "error": repr(e)[:200]})
        finally:
            shutil.rmtree(tmp, ignore_errors=True)
    return out


def run_bounded(prop, tier, seed):
    script = os.path.join(VERIF, "bounded", f"{prop.lower()}.py")
    if not os.path.exists(script):
        return {}
    env = dict(os.environ)
    env["PYTHONPATH"] = f"{REPO}:{VERIF}"
    started = time.time()
    # on the unchanged tree the monitors take 10 s - 4 min (quick) / up to 40 min (thorough); a monitor that runs far beyond
    # that on a changed tree is stopped, and the violations it has already written out (replay files of this run) are reported
    limit = 720 if tier == "quick" else 3000
    try:
        p = subprocess.run([NATIVE_PY, script, tier, str(seed)], capture_output=True, text=True, timeout=limit, env=env, cwd=VERIF)
    except subprocess.TimeoutExpired:
        found = []
        rdir = os.path.join(VERIF, "replays", prop)
        if os.path.isdir(rdir):
            for f in sorted(os.listdir(rdir)):
                fp = os.path.join(rdir, f)
                if f.startswith("bounded_") and os.path.getmtime(fp) >= started - 1:
                    found.append({"what": "written by the monitor before it was stopped", "replay": os.path.join("replays", prop, f)})
        if found:
            return {"failures": found, "parts": [], "evaluations": 0, "error_note": f"bounded monitor stopped after {limit} s; it had already written {len(found)} replay file(s)"}
        return {"error": "bounded part timed out"}
    if p.returncode != 0:
        return {"error": (p.stderr or p.stdout)[-2000:]}
    try:
        return json.loads(p.stdout.strip().splitlines()[-1])
    except Exception as e:  # noqa
        return {"error": f"bad bounded output {e}: {p.stdout[-500:]}"}


def z3_version():
    import z3

    return z3.get_version_string()


def replay_file(path):
    with open(os.path.join(VERIF, path) if not os.path.isabs(path) else path) as fh:
        rp = json.load(fh)
    if rp.get("native_job"):
        nat = native_run(rp["native_job"])
        print(json.dumps({"obligation": rp["obligation"], "native": nat}, indent=1))
        if nat.get("failed"):
            print(f"VIOLATION property={rp['property']} replay={path}")
            return 1
        return 0
    if rp.get("bounded_replay"):
        env = dict(os.environ)
        env["PYTHONPATH"] = f"{REPO}:{VERIF}"
        p = subprocess.run([NATIVE_PY, os.path.join(VERIF, "bounded", rp["bounded_replay"]["script"]), "--replay", path],
                           env=env, cwd=VERIF)
        return p.returncode
    print("replay file carries no native job (solver output only):")
    print(json.dumps(rp.get("solver"), indent=1))
    return 1


from .meta import ASSUMPTIONS_COMMON, EXPLAIN, LEVELS, PROP_ASSUMPTIONS, TRUSTED_COMMON  # noqa: E402


def main(argv):
    if len(argv) >= 2 and argv[0] == "--replay":
        return replay_file(argv[1])
    if len(argv) < 1:
        print(__doc__)
        return 3
    prop = argv[0]
    tier = argv[1] if len(argv) > 1 else os.environ.get("VERIF_TIER", "quick")
    seed = int(os.environ.get("VERIF_SEED", "0"))
    try:
        return check_property(prop, tier, seed)
    except Exception:
        traceback.print_exc()
        return 3


if __name__ == "__main__":
    sys.exit(main(sys.argv[1:]))
