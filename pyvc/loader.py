"""Loads the *real* source of /repo on every run: nothing is copied or rewritten."""
from __future__ import annotations

import ast
import hashlib
import os

REPO_ROOT = os.environ.get("PYVC_REPO", "/repo")


class ModuleInfo:
    def __init__(self, name, path):
        self.name = name
        self.path = path
        with open(path, encoding="utf-8") as fh:
            self.source = fh.read()
        self.tree = ast.parse(self.source, filename=path)
        self.functions = {}  # qualname -> FunctionDef
        self.classes = {}  # name -> ClassDef
        self.imports = {}  # local name -> ('module', dotted) | ('from', module, attr)
        self.assigns = {}  # name -> value expr (module level, last wins)
        self.is_pkg = os.path.basename(path) == "__init__.py"
        for node in self.tree.body:
            self._scan(node)

    def _abs(self, level, module):
        if level == 0:
            return module
        parts = self.name.split(".")
        if not self.is_pkg:
            parts = parts[:-1]
        if level > 1:
            parts = parts[: len(parts) - (level - 1)]
        return ".".join(parts + ([module] if module else []))

    def _scan(self, node):
        if isinstance(node, ast.FunctionDef):
            self.functions[node.name] = node
        elif isinstance(node, ast.ClassDef):
            self.classes[node.name] = node
            for sub in node.body:
                if isinstance(sub, ast.FunctionDef):
                    self.functions[f"{node.name}.{sub.name}"] = sub
        elif isinstance(node, ast.Import):
            for a in node.names:
                if a.asname:
                    self.imports[a.asname] = ("module", a.name)
                else:
                    self.imports[a.name.split(".")[0]] = ("module", a.name.split(".")[0])
        elif isinstance(node, ast.ImportFrom):
            mod = self._abs(node.level, node.module)
            for a in node.names:
                self.imports[a.asname or a.name] = ("from", mod, a.name)
        elif isinstance(node, ast.Assign):
            for t in node.targets:
                if isinstance(t, ast.Name):
                    self.assigns[t.id] = node.value
        elif isinstance(node, ast.AnnAssign) and isinstance(node.target, ast.Name) and node.value is not None:
            self.assigns[node.target.id] = node.value


class Repo:
    def __init__(self, root=None):
        self.root = root or REPO_ROOT
        self._mods = {}

    def module_path(self, name):
        base = os.path.join(self.root, *name.split("."))
        if os.path.isfile(base + ".py"):
            return base + ".py"
        if os.path.isfile(os.path.join(base, "__init__.py")):
            return os.path.join(base, "__init__.py")
        return None

    def is_repo_module(self, name):
        return name.split(".")[0] == "robotools" and self.module_path(name) is not None

    def module(self, name) -> ModuleInfo:
        if name not in self._mods:
            path = self.module_path(name)
            if path is None:
                raise KeyError(f"no repo module {name}")
            self._mods[name] = ModuleInfo(name, path)
        return self._mods[name]

    def find_function(self, dotted):
        """'robotools.worklists.utils.partition_volume' or '...labware.Labware.add' -> (ModuleInfo, qualname, node)"""
        parts = dotted.split(".")
        for cut in range(len(parts) - 1, 0, -1):
            mod = ".".join(parts[:cut])
            if self.module_path(mod) and not os.path.isdir(os.path.join(self.root, *parts[: cut + 1])):
                mi = self.module(mod)
                qn = ".".join(parts[cut:])
                if qn in mi.functions:
                    return mi, qn, mi.functions[qn]
        raise KeyError(f"function {dotted} not found in repo (renamed or removed?)")

    def source_hash(self, dotted):
        mi, qn, node = self.find_function(dotted)
        seg = ast.get_source_segment(mi.source, node) or ""
        return hashlib.sha256(seg.encode()).hexdigest()[:16]

    def resolve_class(self, modname, clsname, _depth=0):
        """Follow imports until the ClassDef is found -> (ModuleInfo, ClassDef) or None."""
        if _depth > 8 or not self.is_repo_module(modname):
            return None
        mi = self.module(modname)
        if clsname in mi.classes:
            return mi, mi.classes[clsname]
        imp = mi.imports.get(clsname)
        if imp and imp[0] == "from":
            return self.resolve_class(imp[1], imp[2], _depth + 1)
        return None
