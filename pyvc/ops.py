"""Python operator semantics over the mixed concrete/symbolic value model."""
from __future__ import annotations

import ast
import math
from fractions import Fraction

import z3

from .values import (
    Arr2V,
    Blk,
    ColDigitsV,
    CondV,
    RecV,
    EnumV,
    ExcV,
    Lit,
    MapV,
    Obj,
    Opaque,
    RowLetterV,
    SeqV,
    SetV,
    Sym,
    Unsupported,
    WellV,
    has_sym,
    is_concrete_scalar,
    num_kind,
    term,
)

OPNAME = {
    ast.Add: "+", ast.Sub: "-", ast.Mult: "*", ast.Div: "/", ast.FloorDiv: "//", ast.Mod: "%", ast.Pow: "**",
    ast.LShift: "<<", ast.RShift: ">>", ast.BitOr: "|", ast.BitAnd: "&", ast.BitXor: "^", ast.MatMult: "@",
}
CMPNAME = {
    ast.Eq: "==", ast.NotEq: "!=", ast.Lt: "<", ast.LtE: "<=", ast.Gt: ">", ast.GtE: ">=", ast.Is: "is",
    ast.IsNot: "is not", ast.In: "in", ast.NotIn: "not in",
}

ROW_LETTERS = "ABCDEFGHIJKLMNOPQRSTUVWXYZ"


class SliceV:
    def __init__(self, lo, hi, step):
        self.lo, self.hi, self.step = lo, hi, step


def _raise(cls, *args):
    from .engine import PyRaise

    raise PyRaise(ExcV(cls, args))


def zbool(b):
    return z3.BoolVal(b) if isinstance(b, bool) else b


def unwrap_bool(v):
    """Sym bool -> z3 term, python bool stays."""
    if isinstance(v, Sym) and v.ty == "bool":
        return v.t
    return v


def mk_bool(t):
    if isinstance(t, bool):
        return t
    t = z3.simplify(t)
    if z3.is_true(t):
        return True
    if z3.is_false(t):
        return False
    return Sym(t, "bool")


def mk_num(t, ty, np=False):
    t = z3.simplify(t)
    if ty == "int" and z3.is_int_value(t):
        return t.as_long()
    if ty == "real" and z3.is_rational_value(t) and not np:
        # keep exact rationals as Fractions (behave like floats for isinstance via FloatQ wrapper below)
        fr = Fraction(t.numerator_as_long(), t.denominator_as_long())
        return FloatQ(fr)
    return Sym(t, ty, np)


class FloatQ(Fraction):
    """An exact rational standing for a Python float (so that isinstance(x, float) is modelled True)."""

    def __repr__(self):
        return f"FloatQ({self.numerator}/{self.denominator})"


def is_floatlike(v):
    return isinstance(v, (float, FloatQ)) or (isinstance(v, Sym) and v.ty == "real")


def is_intlike(v):
    return (isinstance(v, int) and not isinstance(v, Fraction)) or isinstance(v, EnumV) or (
        isinstance(v, Sym) and v.ty in ("int", "bool")
    )


def special_float(v):
    return isinstance(v, float) and (v != v or v in (float("inf"), float("-inf")))


# ----------------------------------------------------------------------------- truthiness


def truthy(ex, v):
    if v is None:
        return False
    if isinstance(v, bool):
        return v
    if isinstance(v, (int, float, Fraction)):
        return v != 0
    if isinstance(v, str):
        return len(v) > 0
    if isinstance(v, Sym):
        if v.ty == "bool":
            return v.t
        if v.ty == "int":
            return v.t != 0
        if v.ty == "real":
            return v.t != 0
        if v.ty == "str":
            return z3.Length(v.t) > 0
    if isinstance(v, EnumV):
        return truthy(ex, v.value)
    if isinstance(v, SeqV):
        if v.kind == "array":
            n = seq_len(v)
            if isinstance(n, int) and n == 1:
                return truthy(ex, seq_get(ex, v, 0))
            raise Unsupported("truth value of an array")
        n = seq_len(v)
        return (n > 0) if isinstance(n, int) else (n > 0)
    if isinstance(v, SetV):
        return len(v.items) > 0
    if isinstance(v, MapV):
        if v.is_concrete():
            return len(v.items) > 0
        raise Unsupported("truth value of functional map")
    if isinstance(v, (Obj, WellV, RowLetterV, ColDigitsV)):
        if isinstance(v, Obj):
            from . import lib

            return lib.obj_truth(ex, v)
        return True
    if isinstance(v, Opaque):
        raise Unsupported("truth value of opaque value")
    return True


def and_(ex, a, b):
    a, b = unwrap_bool(a), unwrap_bool(b)
    if isinstance(a, bool) and isinstance(b, bool):
        return a and b
    if isinstance(a, bool):
        return mk_bool(b) if a else False
    if isinstance(b, bool):
        return mk_bool(a) if b else False
    return mk_bool(z3.And(a, b))


def ite(ex, c, a, b):
    """pure conditional value"""
    if isinstance(c, bool):
        return a if c else b
    if z3.is_expr(a):
        a = lift_raw(a)
    if z3.is_expr(b):
        b = lift_raw(b)
    ka, kb = num_kind(a), num_kind(b)
    if ka and kb:
        ty = "real" if "real" in (ka, kb) else "int"
        return mk_num(z3.If(c, term(a, ty), term(b, ty)), ty)
    if _is_boolish(a) and _is_boolish(b):
        return mk_bool(z3.If(c, zbool(unwrap_bool(a)), zbool(unwrap_bool(b))))
    if _is_strish(a) and _is_strish(b):
        return Sym(z3.If(c, term(a), term(b)), "str")
    if isinstance(a, EnumV) and isinstance(b, EnumV) and a.cls == b.cls:
        return EnumV(a.cls, ite(ex, c, a.value, b.value))
    if isinstance(a, ColDigitsV) and isinstance(b, ColDigitsV):
        x = ite(ex, c, a.c, b.c)
        return ColDigitsV(x if isinstance(x, int) else term(x, "int"))
    if isinstance(a, RowLetterV) and isinstance(b, RowLetterV):
        x = ite(ex, c, a.r, b.r)
        return RowLetterV(x if isinstance(x, int) else term(x, "int"))
    if isinstance(a, WellV) and isinstance(b, WellV):
        rr, cc = ite(ex, c, a.r, b.r), ite(ex, c, a.c, b.c)
        return WellV(rr if isinstance(rr, int) else term(rr, "int"), cc if isinstance(cc, int) else term(cc, "int"))
    if isinstance(a, SeqV) and isinstance(b, SeqV) and a.kind == b.kind == "tuple":
        ia, ib = a.concrete_items(), b.concrete_items()
        if len(ia) == len(ib):
            return SeqV.of("tuple", [ite(ex, c, x, y) for x, y in zip(ia, ib)])
    if a is b:
        return a
    if isinstance(a, SeqV) and isinstance(b, SeqV) and a.kind == b.kind:
        na, nb = seq_len(a), seq_len(b)
        ca, cb = a.copy(), b.copy()
        n = z3.simplify(z3.If(c, term(na, "int"), term(nb, "int")))

        def at(i, ca=ca, cb=cb, na=na, nb=nb):
            # the element is read only where the index is within the chosen branch's range
            ea = _safe_get(ex, ca, i, na)
            eb = _safe_get(ex, cb, i, nb)
            if ea is None:
                return eb
            if eb is None:
                return ea
            return ite(ex, c, ea, eb)

        if z3.is_int_value(n):
            return SeqV.of(a.kind, [at(i) for i in range(n.as_long())], a.dtype)
        return SeqV(a.kind, [Blk(n, at)], a.dtype)
    return CondV(c, a, b)


def _safe_get(ex, seq, i, n):
    if isinstance(n, int) and n == 0:
        return None
    if isinstance(n, int) and isinstance(i, int) and i >= n:
        return None
    if isinstance(n, int) and not isinstance(i, int):
        # clamp a symbolic index into a concrete-length sequence
        it = term(i, "int")
        items = seq.concrete_items()
        res = items[-1]
        for k in range(len(items) - 2, -1, -1):
            res = ite(ex, it == k, items[k], res)
        return res
    return seq_get(ex, seq, _ix(i) if not isinstance(i, (int, Sym)) else i)


def _is_boolish(v):
    return isinstance(v, bool) or (isinstance(v, Sym) and v.ty == "bool")


def _is_strish(v):
    return isinstance(v, str) or (isinstance(v, Sym) and v.ty == "str")


# ----------------------------------------------------------------------------- arithmetic

_POW2 = z3.Function("pow2", z3.IntSort(), z3.IntSort())
_BOR = z3.Function("bitor", z3.IntSort(), z3.IntSort(), z3.IntSort())


def pow2_term(n):
    t = _POW2(n)
    for k in range(16, -1, -1):
        t = z3.If(n == k, z3.IntVal(2 ** k), t)
    return t


def binop(ex, op, a, b):
    if isinstance(a, EnumV) and not isinstance(b, (SeqV, Arr2V)):
        a = a.value
    if isinstance(b, EnumV) and not isinstance(a, (SeqV, Arr2V)):
        b = b.value
    # containers first
    if isinstance(a, SeqV) or isinstance(b, SeqV) or isinstance(a, Arr2V) or isinstance(b, Arr2V):
        return seq_binop(ex, op, a, b)
    if isinstance(a, SetV) and isinstance(b, SetV):
        if op == "-":
            return SetV([x for x in a.items if not any(eq_concrete(ex, x, y) for y in b.items)])
        if op == "|":
            return SetV(dedupe(ex, a.items + b.items))
        raise Unsupported("set op")
    if _is_strish(a) or _is_strish(b):
        return str_binop(ex, op, a, b)
    ka, kb = num_kind(a), num_kind(b)
    if ka is None or kb is None:
        if a is None or b is None:
            _raise("TypeError", f"unsupported operand None for {op}")
        raise Unsupported(f"binop {op} on {type(a).__name__},{type(b).__name__}")
    # concrete fast path (exact: floats are kept as floats only if special; finite floats become exact rationals)
    if not has_sym(a) and not has_sym(b):
        return concrete_binop(op, a, b)
    if special_float(a) or special_float(b):
        return special_binop(ex, op, a, b)
    np = (isinstance(a, Sym) and a.np) or (isinstance(b, Sym) and b.np)
    if op in ("+", "-", "*"):
        ty = "real" if "real" in (ka, kb) else "int"
        ta, tb = term(a, ty), term(b, ty)
        t = {"+": ta + tb, "-": ta - tb, "*": ta * tb}[op]
        return mk_num(t, ty, np)
    if op == "/":
        tb = term(b, "real")
        if ex.pure == 0:
            if ex.p.branch(tb == 0, "div0"):
                if is_floatlike(b) and isinstance(b, Sym) and b.np:
                    raise Unsupported("numpy division by zero (nan/inf)")
                _raise("ZeroDivisionError")
        from .lib import QuotV

        q = term(a, "real") / tb
        qs = z3.simplify(q)
        if z3.is_rational_value(qs) and not np:
            return mk_num(qs, "real", np)
        r = QuotV(q, "real", np)
        r.a, r.b = a, b
        return r
    if op in ("//", "%"):
        if ka == "int" and kb == "int":
            tb = term(b, "int")
            if ex.pure == 0:
                if ex.p.branch(tb == 0, "div0"):
                    _raise("ZeroDivisionError")
                if ex.p.branch(tb < 0, "negdiv"):
                    raise Unsupported("floor division by a possibly negative symbolic divisor")
            ta = term(a, "int")
            return mk_num(ta / tb if op == "//" else ta % tb, "int", np)
        # float floor division: floor(a / b) as a float (b > 0 only)
        from .lib import ceil_of_quotient

        if ex.pure == 0:
            tb = term(b, "real")
            if ex.p.branch(tb == 0, "div0"):
                _raise("ZeroDivisionError")
            if ex.p.branch(tb < 0, "negdiv"):
                raise Unsupported("float floor division by a possibly negative divisor")
        k = ceil_of_quotient(ex, a, b, "floor")
        if op == "//":
            return Sym(z3.ToReal(k.t), "real", np)
        return mk_num(term(a, "real") - z3.ToReal(k.t) * term(b, "real"), "real", np)
    if op == "<<":
        if ka == "int" and kb == "int":
            return mk_num(term(a, "int") * pow2_term(term(b, "int")), "int")
    if op == "|":
        if ka == "int" and kb == "int":
            ta, tb = term(a, "int"), term(b, "int")
            r = _BOR(ta, tb)
            # sound instance of: 0 <= a < 2^k  =>  a | 2^k == a + 2^k ; and a | 0 == a
            facts = [z3.Implies(tb == 0, r == ta), z3.Implies(ta == 0, r == tb)]
            facts.append(
                z3.Implies(z3.And(ta >= 0, z3.Or([z3.And(tb == 2 ** k, ta < 2 ** k) for k in range(0, 17)])), r == ta + tb)
            )
            ex.p.assume(z3.And(*facts))
            return mk_num(r, "int")
    if op == "**":
        if isinstance(b, int) and not isinstance(b, bool) and 0 <= b <= 4:
            ty = ka
            t = term(1, ty)
            for _ in range(b):
                t = t * term(a, ty)
            return mk_num(t, ty, np)
    raise Unsupported(f"binop {op} ({ka},{kb})")


def concrete_binop(op, a, b):
    def norm(x):
        if isinstance(x, float) and not special_float(x):
            return FloatQ(Fraction(x))
        return x

    a, b = norm(a), norm(b)
    try:
        if special_float(a) or special_float(b):
            fa = float(a)
            fb = float(b)
            r = {"+": lambda: fa + fb, "-": lambda: fa - fb, "*": lambda: fa * fb, "/": lambda: fa / fb}[op]()
            return r
        if op == "+":
            r = a + b
        elif op == "-":
            r = a - b
        elif op == "*":
            r = a * b
        elif op == "/":
            if b == 0:
                _raise("ZeroDivisionError")
            r = FloatQ(Fraction(a) / Fraction(b))
        elif op == "//":
            if b == 0:
                _raise("ZeroDivisionError")
            r = a // b
        elif op == "%":
            if b == 0:
                _raise("ZeroDivisionError")
            r = a % b
        elif op == "**":
            r = a ** b
        elif op == "<<":
            r = a << b
        elif op == ">>":
            r = a >> b
        elif op == "|":
            r = a | b
        elif op == "&":
            r = a & b
        elif op == "^":
            r = a ^ b
        else:
            raise Unsupported(f"concrete binop {op}")
    except TypeError:
        _raise("TypeError", op)
    if isinstance(r, Fraction) and not isinstance(r, FloatQ):
        if isinstance(a, FloatQ) or isinstance(b, FloatQ) or op == "/":
            r = FloatQ(r)
        elif r.denominator == 1:
            r = int(r)
        else:
            r = FloatQ(r)
    if isinstance(r, bool):
        return r
    return r


def special_binop(ex, op, a, b):
    """One side is nan/+-inf, the other a symbolic finite number."""
    sa = a if special_float(a) else b
    if sa != sa:
        return float("nan")
    if op == "+":
        return sa
    if op == "-":
        return sa if special_float(a) else -sa
    raise Unsupported(f"{op} with infinity and a symbolic operand")


def str_binop(ex, op, a, b):
    from . import lib

    if op == "+":
        if _is_strish(a) and _is_strish(b):
            return lib.join_str_parts(ex, [a, b])
        _raise("TypeError", "str +")
    if op == "*" and isinstance(a, str) and isinstance(b, int):
        return a * b
    if op == "%":
        raise Unsupported("str % formatting")
    _raise("TypeError", f"str {op}")


def invert(ex, v):
    if isinstance(v, SeqV) and v.kind == "array":
        return seq_map(ex, v, lambda x: mk_bool(z3.Not(zbool(unwrap_bool(x)))) if not isinstance(x, bool) else (not x))
    raise Unsupported("~")


# ----------------------------------------------------------------------------- comparison


def eq_concrete(ex, a, b):
    r = compare(ex, "==", a, b)
    if isinstance(r, bool):
        return r
    raise Unsupported("symbolic equality where a concrete decision is needed")


def dedupe(ex, items):
    out = []
    for x in items:
        if not any(eq_concrete(ex, x, y) for y in out):
            out.append(x)
    return out


def compare(ex, op, a, b):
    if op == "is":
        return identical(a, b)
    if op == "is not":
        r = identical(a, b)
        return not r
    if op == "in":
        return contains(ex, b, a)
    if op == "not in":
        r = contains(ex, b, a)
        return (not r) if isinstance(r, bool) else mk_bool(z3.Not(unwrap_bool(r)))
    if op == "!=":
        r = compare(ex, "==", a, b)
        if isinstance(r, SeqV):
            return seq_map(ex, r, lambda x: (not x) if isinstance(x, bool) else mk_bool(z3.Not(unwrap_bool(x))))
        return (not r) if isinstance(r, bool) else mk_bool(z3.Not(unwrap_bool(r)))
    # arrays broadcast
    if (isinstance(a, SeqV) and a.kind == "array") or (isinstance(b, SeqV) and b.kind == "array") or isinstance(a, Arr2V) or isinstance(b, Arr2V):
        return seq_binop(ex, op, a, b)
    if op == "==":
        return equals(ex, a, b)
    # ordering
    a, b = lift_raw(a), lift_raw(b)
    if isinstance(a, EnumV):
        a = a.value
    if isinstance(b, EnumV):
        b = b.value
    ka, kb = num_kind(a), num_kind(b)
    if ka and kb:
        if not has_sym(a) and not has_sym(b):
            fa = a if special_float(a) else (Fraction(a) if not isinstance(a, bool) else int(a))
            fb = b if special_float(b) else (Fraction(b) if not isinstance(b, bool) else int(b))
            return {"<": fa < fb, "<=": fa <= fb, ">": fa > fb, ">=": fa >= fb}[op]
        if special_float(a) or special_float(b):
            s, other_is_left = (a, False) if special_float(a) else (b, True)
            if s != s:
                return False
            pos = s > 0
            if other_is_left:  # finite OP s
                return {"<": pos, "<=": pos, ">": not pos, ">=": not pos}[op]
            return {"<": not pos, "<=": not pos, ">": pos, ">=": pos}[op]
        ty = "real" if "real" in (ka, kb) else "int"
        ta, tb = term(a, ty), term(b, ty)
        return mk_bool({"<": ta < tb, "<=": ta <= tb, ">": ta > tb, ">=": ta >= tb}[op])
    if a is None or b is None:
        _raise("TypeError", f"{op} with None")
    if isinstance(a, str) and isinstance(b, str):
        return {"<": a < b, "<=": a <= b, ">": a > b, ">=": a >= b}[op]
    if isinstance(a, WellV) and isinstance(b, WellV):
        return well_order(ex, op, a, b)
    if isinstance(a, ColDigitsV) and isinstance(b, ColDigitsV):
        # string order of the printed column numbers == numeric order while both have two digits (columns 1..99)
        from . import lib

        lib.used("order of '{c:02d}' strings is the numeric order (columns 1..99, as in the property)")
        ta, tb = term(a.c, "int"), term(b.c, "int")
        return mk_bool({"<": ta < tb, "<=": ta <= tb, ">": ta > tb, ">=": ta >= tb}[op])
    if (_is_strish(a) and kb) or (_is_strish(b) and ka):
        _raise("TypeError", f"{op} between str and number")
    if isinstance(a, SeqV) and isinstance(b, SeqV):
        ia, ib = a.concrete_items(), b.concrete_items()
        if all(is_concrete_scalar(x) for x in ia + ib):
            return {"<": ia < ib, "<=": ia <= ib, ">": ia > ib, ">=": ia >= ib}[op]
    raise Unsupported(f"compare {op} on {type(a).__name__},{type(b).__name__}")


def well_order(ex, op, a, b):
    """Lexicographic order of well-id strings.  Faithful only when both column numbers print with the
    same number of digits (c <= 99); the caller's contract must guarantee that."""
    ar, br, ac, bc = term(a.r, "int"), term(b.r, "int"), term(a.c, "int"), term(b.c, "int")
    lt = z3.Or(ar < br, z3.And(ar == br, ac < bc))
    eq = z3.And(ar == br, ac == bc)
    return mk_bool({"<": lt, "<=": z3.Or(lt, eq), ">": z3.Not(z3.Or(lt, eq)), ">=": z3.Not(lt)}[op])


def identical(a, b):
    if a is None or b is None:
        return a is None and b is None
    if isinstance(a, (Obj, SeqV, Arr2V, MapV)) or isinstance(b, (Obj, SeqV, Arr2V, MapV)):
        return a is b
    if isinstance(a, bool) and isinstance(b, bool):
        return a == b
    if isinstance(a, EnumV) and isinstance(b, EnumV):
        r = equals(None, a, b)
        if isinstance(r, bool):
            return r
    raise Unsupported("`is` on scalars")


def lift_raw(v):
    if z3.is_expr(v):
        if z3.is_int(v):
            return mk_num(v, "int")
        if z3.is_real(v):
            return mk_num(v, "real")
        if z3.is_bool(v):
            return mk_bool(v)
        if z3.is_string(v):
            return Sym(v, "str")
    return v


def equals(ex, a, b):
    """Python == for non-array values -> host bool or Sym bool."""
    a, b = lift_raw(a), lift_raw(b)
    if isinstance(a, CondV):
        return mk_bool(z3.If(a.c, zbool(unwrap_bool(equals(ex, a.a, b))), zbool(unwrap_bool(equals(ex, a.b, b)))))
    if isinstance(b, CondV):
        return mk_bool(z3.If(b.c, zbool(unwrap_bool(equals(ex, a, b.a))), zbool(unwrap_bool(equals(ex, a, b.b)))))
    if type(a).__name__ == "SortedSetV" or type(b).__name__ == "SortedSetV":
        ss, xs = (a, b) if type(a).__name__ == "SortedSetV" else (b, a)
        if isinstance(xs, SeqV) and xs.is_concrete_len() and ss.seq.is_concrete_len():
            xi, si = xs.concrete_items(), ss.seq.concrete_items()
            if len(xi) == len(si) and all(_struct_eq(p, q) for p, q in zip(xi, si)):
                # xs == sorted(set(xs))  <=>  xs is strictly ascending
                from . import lib

                lib.used("xs == sorted(set(xs)) iff xs is strictly ascending")
                r = True
                for p, q in zip(xi, xi[1:]):
                    r = and_(ex, r, compare(ex, "<", p, q))
                return r
        raise Unsupported("comparison with sorted(set(..)) of a different sequence")
    if type(a).__name__ == "JoinV" or type(b).__name__ == "JoinV":
        if type(a).__name__ == "JoinV" and type(b).__name__ == "JoinV":
            return and_(ex, equals(ex, a.sep, b.sep), seq_equal(ex, a.seq, b.seq))
        raise Unsupported("comparison of a joined sequence with a plain string")
    if isinstance(a, RecV) or isinstance(b, RecV):
        return record_equal(ex, a, b)
    if isinstance(a, CondV):
        return mk_bool(z3.If(a.c, zbool(unwrap_bool(equals(ex, a.a, b))), zbool(unwrap_bool(equals(ex, a.b, b)))))
    if isinstance(b, CondV):
        return mk_bool(z3.If(b.c, zbool(unwrap_bool(equals(ex, a, b.a))), zbool(unwrap_bool(equals(ex, a, b.b)))))
    if a is None or b is None:
        return a is None and b is None
    if isinstance(a, EnumV) and isinstance(b, EnumV) and a.cls != b.cls:
        return False
    if isinstance(a, EnumV):
        a = a.value
    if isinstance(b, EnumV):
        b = b.value
    ka, kb = num_kind(a), num_kind(b)
    if ka and kb:
        if not has_sym(a) and not has_sym(b):
            if special_float(a) or special_float(b):
                return float(a) == float(b)
            return Fraction(a) == Fraction(b)
        if special_float(a) or special_float(b):
            return False
        ty = "real" if "real" in (ka, kb) else "int"
        return mk_bool(term(a, ty) == term(b, ty))
    if _is_strish(a) and _is_strish(b):
        if isinstance(a, str) and isinstance(b, str):
            return a == b
        return mk_bool(term(a) == term(b))
    if isinstance(a, WellV) and isinstance(b, WellV):
        return and_(ex, equals(ex, a.r, b.r), equals(ex, a.c, b.c))
    if isinstance(a, RowLetterV) and isinstance(b, RowLetterV):
        return equals(ex, a.r, b.r)
    if isinstance(a, ColDigitsV) and isinstance(b, ColDigitsV):
        return equals(ex, a.c, b.c)
    if isinstance(a, (WellV, RowLetterV, ColDigitsV)) or isinstance(b, (WellV, RowLetterV, ColDigitsV)):
        x, y = (a, b) if isinstance(a, (WellV, RowLetterV, ColDigitsV)) else (b, a)
        if isinstance(y, str):
            return str_abstract_eq(ex, x, y)
        if isinstance(y, (WellV, RowLetterV, ColDigitsV)):
            if isinstance(x, RowLetterV) and isinstance(y, WellV) or isinstance(x, WellV) and isinstance(y, RowLetterV):
                return False
            raise Unsupported("equality between different abstract strings")
        if num_kind(y) or y is None or isinstance(y, (SeqV, MapV, Obj)):
            return False
        raise Unsupported("equality of abstract well string with symbolic string")
    if isinstance(a, Arr2V) and isinstance(b, Arr2V):
        i, j = z3.Int(ex.p.fresh_name("ei")), z3.Int(ex.p.fresh_name("ej"))
        e = zbool(unwrap_bool(equals(ex, a.fn(i, j), b.fn(i, j))))
        rng = z3.And(i >= 0, i < term(a.rows, "int"), j >= 0, j < term(a.cols, "int"))
        return mk_bool(z3.And(term(a.rows, "int") == term(b.rows, "int"), term(a.cols, "int") == term(b.cols, "int"),
                              z3.ForAll([i, j], z3.Implies(rng, e))))
    if isinstance(a, SeqV) and isinstance(b, SeqV):
        if (a.kind == "tuple") != (b.kind == "tuple") and "array" not in (a.kind, b.kind):
            return False
        return seq_equal(ex, a, b)
    if isinstance(a, SetV) and isinstance(b, SetV):
        return all(any(eq_concrete(ex, x, y) for y in b.items) for x in a.items) and all(
            any(eq_concrete(ex, x, y) for y in a.items) for x in b.items
        )
    if isinstance(a, Obj) or isinstance(b, Obj):
        return a is b
    if isinstance(a, MapV) and isinstance(b, MapV):
        if a.is_concrete() and b.is_concrete():
            if len(a.items) != len(b.items):
                return False
            res = True
            for k, v in a.items:
                found = [v2 for k2, v2 in b.items if eq_concrete(ex, k, k2)]
                if not found:
                    return False
                res = and_(ex, res, equals(ex, v, found[0]))
            return res
        raise Unsupported("equality of functional maps")
    if isinstance(a, ExcV) or isinstance(b, ExcV):
        return a is b
    # different kinds
    kinds = (num_kind(a) is not None or _is_boolish(a), _is_strish(a)), (num_kind(b) is not None or _is_boolish(b), _is_strish(b))
    if isinstance(a, Opaque) or isinstance(b, Opaque):
        if a is b:
            return True
        raise Unsupported("equality with opaque value")
    if kinds[0] != kinds[1] or type(a) != type(b):
        return False
    raise Unsupported(f"== on {type(a).__name__},{type(b).__name__}")


def str_abstract_eq(ex, x, s: str):
    if isinstance(x, RowLetterV):
        if len(s) != 1 or s not in ROW_LETTERS:
            return False
        return equals(ex, x.r, ROW_LETTERS.index(s))
    if isinstance(x, WellV):
        if len(s) < 3 or s[0] not in ROW_LETTERS or not s[1:].isdigit() or (len(s) > 3 and s[1] == "0"):
            return False
        return and_(ex, equals(ex, x.r, ROW_LETTERS.index(s[0])), equals(ex, x.c, int(s[1:])))
    if isinstance(x, ColDigitsV):
        if not s.isdigit() or len(s) < 2 or (len(s) > 2 and s[0] == "0"):
            return False
        return equals(ex, x.c, int(s))
    return False


def to_abstract(v):
    """Concrete well-id strings are lifted into the abstraction when well-formed."""
    if isinstance(v, str) and len(v) >= 3 and v[0] in ROW_LETTERS and v[1:].isdigit() and not (len(v) > 3 and v[1] == "0") and int(v[1:]) >= 1:
        return WellV(ROW_LETTERS.index(v[0]), int(v[1:]))
    return v


def contains(ex, container, item):
    if isinstance(container, str):
        if isinstance(item, str):
            return item in container
        if isinstance(item, Sym) and item.ty == "str":
            return mk_bool(z3.Contains(z3.StringVal(container), item.t))
        _raise("TypeError", "in <str>")
    if isinstance(container, Sym) and container.ty == "str":
        if _is_strish(item):
            return mk_bool(z3.Contains(container.t, term(item)))
        _raise("TypeError", "in <str>")
    if isinstance(container, (WellV, RowLetterV, ColDigitsV)):
        if isinstance(item, str):
            if item == ";" or not item.isalnum():
                return False
        raise Unsupported("substring test on abstract well string")
    if isinstance(container, SetV):
        items = container.items
    elif isinstance(container, SeqV):
        if container.is_concrete_len():
            items = container.concrete_items()
        else:
            n = seq_len(container)
            i = z3.Int(ex.p.fresh_name("j"))
            e = equals(ex, seq_get(ex, container, Sym(i, "int")), item)
            return mk_bool(z3.Exists([i], z3.And(i >= 0, i < term(n, "int"), zbool(unwrap_bool(e)))))
    elif isinstance(container, MapV):
        if container.is_concrete():
            items = [k for k, _ in container.items]
        else:
            return map_has(ex, container, item)
    elif isinstance(container, ops_Range):
        lo, hi = container.lo, container.hi
        if num_kind(item) != "int":
            raise Unsupported("non-int in range")
        return and_(ex, compare(ex, "<=", lo, item), compare(ex, "<", item, hi))
    else:
        raise Unsupported(f"`in` on {type(container).__name__}")
    res = False
    for x in items:
        e = equals(ex, x, item)
        if isinstance(e, bool):
            if e:
                return True
        else:
            res = e if res is False else mk_bool(z3.Or(unwrap_bool(res), unwrap_bool(e)))
    return res


class ops_Range:
    def __init__(self, lo, hi):
        self.lo, self.hi = lo, hi


# ----------------------------------------------------------------------------- sequences


def seg_len(s):
    return len(s.items) if isinstance(s, Lit) else s.n


def seq_len(v: SeqV):
    tot = 0
    symt = None
    for s in v.segs:
        n = seg_len(s)
        if isinstance(n, int):
            tot += n
        else:
            symt = n if symt is None else symt + n
    if symt is None:
        return tot
    return z3.simplify(symt + tot)


def seq_get(ex, v: SeqV, i):
    """element at index i (int or Sym int), assumed in range (caller checks)."""
    if isinstance(i, Sym):
        it = i.t
        s = z3.simplify(it)
        if z3.is_int_value(s):
            i = s.as_long()
    if isinstance(i, int):
        if i < 0:
            n = seq_len(v)
            if isinstance(n, int):
                i = n + i
            else:
                # negative index from the end: walk segments backwards over concrete tails
                j = -i
                for s in reversed(v.segs):
                    ln = seg_len(s)
                    if not isinstance(ln, int):
                        return _blk_at(s, z3.simplify(s.n - j))
                    if j <= ln:
                        return s.items[ln - j] if isinstance(s, Lit) else s.at(ln - j)
                    j -= ln
                raise Unsupported("negative index too deep")
        off = 0
        for k, s in enumerate(v.segs):
            ln = seg_len(s)
            if not isinstance(ln, int):
                return _select_chain(ex, v.segs[k:], (i - off))
            if i < off + ln:
                return s.items[i - off] if isinstance(s, Lit) else s.at(i - off)
            off += ln
        raise Unsupported("index out of range in seq_get")
    return _select_chain(ex, v.segs, i.t if isinstance(i, Sym) else i)


def _blk_at(s, it):
    if isinstance(s, Lit):
        vals = s.items
        if len(vals) == 1:
            return vals[0]
        res = vals[-1]
        for k in range(len(vals) - 2, -1, -1):
            res = ite(None, it == k, vals[k], res)
        return res
    return s.at(it)


def _select_chain(ex, segs, it):
    if isinstance(it, int):
        it = z3.IntVal(it)
    off = 0
    cases = []
    for s in segs:
        ln = seg_len(s)
        if isinstance(ln, int) and ln == 0:
            continue
        local = z3.simplify(it - off)
        cases.append((z3.simplify(it < (off + ln)), s, local))
        off = off + ln
    if not cases:
        raise Unsupported("index into empty sequence")
    val = _blk_at(cases[-1][1], cases[-1][2])
    for cond, s, local in reversed(cases[:-1]):
        val = ite(ex, cond, _blk_at(s, local), val)
    return val


def seq_index_checked(ex, v: SeqV, i):
    """v[i] with Python's IndexError semantics."""
    n = seq_len(v)
    if isinstance(i, EnumV):
        i = i.value
    if isinstance(i, bool):
        i = int(i)
    if isinstance(i, int) and isinstance(n, int):
        if not (-n <= i < n):
            _raise("IndexError")
        return seq_get(ex, v, i)
    if isinstance(i, int) and i < 0:
        ok = mk_bool(term(n, "int") >= -i)
        if not ex.test(ok, "index"):
            _raise("IndexError")
        return seq_get(ex, v, i)
    if num_kind(i) != "int":
        _raise("TypeError", "index")
    it = term(i, "int")
    if ex.pure == 0:
        if ex.p.branch(it < 0, "negindex"):
            nt = term(n, "int")
            if not ex.p.branch(it >= -nt, "index"):
                _raise("IndexError")
            return seq_get(ex, v, mk_num(it + nt, "int"))
        if not ex.p.branch(it < term(n, "int"), "index"):
            _raise("IndexError")
    return seq_get(ex, v, Sym(it, "int"))


def seq_slice(ex, v: SeqV, sl: SliceV):
    if sl.step is not None and not (isinstance(sl.step, int) and sl.step in (1, -1)):
        raise Unsupported("slice step")
    n = seq_len(v)
    if sl.step == -1:
        if sl.lo is None and sl.hi is None and v.is_concrete_len():
            return SeqV.of(v.kind, list(reversed(v.concrete_items())), v.dtype)
        raise Unsupported("reverse slice of symbolic sequence")

    def norm(b, default):
        if b is None:
            return default
        if isinstance(b, EnumV):
            b = b.value
        if isinstance(b, int) and isinstance(n, int):
            if b < 0:
                b = max(n + b, 0)
            return min(b, n)
        if num_kind(b) != "int":
            _raise("TypeError", "slice indices must be integers")
        bt, nt = term(b, "int"), term(n, "int")
        return z3.simplify(z3.If(bt < 0, z3.If(nt + bt < 0, 0, nt + bt), z3.If(bt > nt, nt, bt)))

    lo = norm(sl.lo, 0)
    hi = norm(sl.hi, n)
    if isinstance(lo, int) and isinstance(hi, int) and v.is_concrete_len():
        return SeqV.of(v.kind, v.concrete_items()[lo:hi], v.dtype)
    if isinstance(lo, int) and lo == 0 and isinstance(hi, int):
        # prefix of concrete length over leading concrete segments
        items = []
        for s in v.segs:
            ln = seg_len(s)
            if not isinstance(ln, int):
                break
            items.extend(s.items if isinstance(s, Lit) else [s.fn(i) for i in range(ln)])
        if len(items) >= hi:
            return SeqV.of(v.kind, items[:hi], v.dtype)
    if isinstance(hi, int) and isinstance(n, int) and hi == n and isinstance(lo, int):
        pass
    # general: a block reading from the original
    lot = term(lo, "int")
    hit = term(hi, "int")
    ln = z3.simplify(z3.If(hit - lot < 0, 0, hit - lot))
    src = v.copy()
    if z3.is_int_value(ln):
        k = ln.as_long()
        return SeqV.of(v.kind, [seq_get(ex, src, mk_num(lot + j, "int")) for j in range(k)], v.dtype)
    return SeqV(v.kind, [Blk(ln, lambda j, src=src, lot=lot: seq_get(ex, src, Sym(z3.simplify(lot + j), "int") if not isinstance(j, int) else mk_num(lot + j, "int")))], v.dtype)


def seq_concat(ex, a: SeqV, b: SeqV, kind=None):
    return SeqV(kind or a.kind, a.copy().segs + b.copy().segs, a.dtype or b.dtype)


def seq_repeat(ex, a: SeqV, k):
    if isinstance(k, EnumV):
        k = k.value
    if isinstance(k, bool):
        k = int(k)
    if isinstance(k, int):
        if a.is_concrete_len():
            return SeqV.of(a.kind, a.concrete_items() * max(k, 0), a.dtype)
        segs = []
        for _ in range(max(k, 0)):
            segs.extend(a.copy().segs)
        return SeqV(a.kind, segs, a.dtype)
    if num_kind(k) != "int":
        _raise("TypeError", "can't multiply sequence by non-int")
    kt = term(k, "int")
    m = seq_len(a)
    cnt = z3.If(kt < 0, 0, kt)
    if isinstance(m, int) and m == 1:
        item = seq_get(ex, a, 0)
        return SeqV(a.kind, [Blk(z3.simplify(cnt), lambda j, item=item: item)], a.dtype)
    src = a.copy()
    mt = term(m, "int")
    # (xs * k)[i] == xs[i mod len(xs)]
    return SeqV(a.kind, [Blk(z3.simplify(cnt * mt), lambda j, src=src, mt=mt: seq_get(ex, src, mk_num(term(j, "int") % mt, "int")))], a.dtype)


def seq_map(ex, v, f, kind=None):
    if isinstance(v, Arr2V):
        return Arr2V(v.rows, v.cols, lambda i, j, g=v.fn: f(g(i, j)), v.dtype)
    segs = []
    for s in v.segs:
        if isinstance(s, Lit):
            segs.append(Lit([f(x) for x in s.items]))
        else:
            segs.append(Blk(s.n, lambda j, g=s.fn: f(g(j))))
    return SeqV(kind or v.kind, segs, v.dtype)


def seq_binop(ex, op, a, b):
    """list concatenation / repetition, numpy elementwise arithmetic and comparison."""
    cmp_ops = ("<", "<=", ">", ">=", "==", "!=")
    if isinstance(a, Arr2V) or isinstance(b, Arr2V):
        A, o, left = (a, b, True) if isinstance(a, Arr2V) else (b, a, False)
        if isinstance(o, Arr2V):
            if not (_same_dim(ex, A.rows, o.rows) and _same_dim(ex, A.cols, o.cols)):
                raise Unsupported("2-D broadcast with different shapes")
            return Arr2V(A.rows, A.cols, lambda i, j, f=a.fn, g=b.fn: _scalar_op(ex, op, f(i, j), g(i, j)), A.dtype)
        if isinstance(o, SeqV):
            raise Unsupported("2-D with 1-D broadcast")
        return Arr2V(A.rows, A.cols, lambda i, j, f=A.fn: _scalar_op(ex, op, f(i, j), o) if left else _scalar_op(ex, op, o, f(i, j)), A.dtype)
    arr = (isinstance(a, SeqV) and a.kind == "array") or (isinstance(b, SeqV) and b.kind == "array")
    if arr:
        if isinstance(a, SeqV) and isinstance(b, SeqV):
            na, nb = seq_len(a), seq_len(b)
            if isinstance(nb, int) and nb == 1 and not (isinstance(na, int) and na == 1):
                y = seq_get(ex, b, 0)
                return seq_map(ex, a, lambda x: _scalar_op(ex, op, x, y), "array")
            if isinstance(na, int) and na == 1 and not (isinstance(nb, int) and nb == 1):
                x = seq_get(ex, a, 0)
                return seq_map(ex, b, lambda y: _scalar_op(ex, op, x, y), "array")
            same = _same_dim(ex, na, nb)
            if not same:
                raise Unsupported("elementwise op on arrays of possibly different length")
            if a.is_concrete_len() and b.is_concrete_len():
                return SeqV.of("array", [_scalar_op(ex, op, x, y) for x, y in zip(a.concrete_items(), b.concrete_items())])
            ca, cb = a.copy(), b.copy()
            return SeqV("array", [Blk(na, lambda j: _scalar_op(ex, op, seq_get(ex, ca, _ix(j)), seq_get(ex, cb, _ix(j))))])
        if isinstance(a, SeqV):
            return seq_map(ex, a, lambda x: _scalar_op(ex, op, x, b), "array")
        return seq_map(ex, b, lambda y: _scalar_op(ex, op, a, y), "array")
    # plain lists / tuples
    if op == "+" and isinstance(a, SeqV) and isinstance(b, SeqV):
        if (a.kind == "tuple") != (b.kind == "tuple"):
            _raise("TypeError", "concatenate list and tuple")
        return seq_concat(ex, a, b)
    if op == "*":
        if isinstance(a, SeqV) and not isinstance(b, SeqV):
            return seq_repeat(ex, a, b)
        if isinstance(b, SeqV) and not isinstance(a, SeqV):
            return seq_repeat(ex, b, a)
    if op in cmp_ops and isinstance(a, SeqV) and isinstance(b, SeqV):
        if op == "==":
            return seq_equal(ex, a, b)
        if op == "!=":
            r = seq_equal(ex, a, b)
            return (not r) if isinstance(r, bool) else mk_bool(z3.Not(unwrap_bool(r)))
    _raise("TypeError", f"unsupported operand types for {op}")


def _ix(j):
    return j if isinstance(j, int) else Sym(j, "int") if z3.is_expr(j) else j


def _same_dim(ex, x, y):
    if isinstance(x, int) and isinstance(y, int):
        return x == y
    s = z3.simplify(term(x, "int") == term(y, "int"))
    if z3.is_true(s):
        return True
    if ex is not None and ex.p is not None:
        ex.p.solver.push()
        ex.p.solver.add(z3.Not(s))
        r = ex.p.solver.check()
        ex.p.solver.pop()
        return r == z3.unsat
    return False


def _scalar_op(ex, op, x, y):
    if op in ("<", "<=", ">", ">=", "==", "!="):
        return compare(ex, op, x, y)
    ex.pure += 1  # elementwise numpy arithmetic never raises ZeroDivisionError
    try:
        return binop(ex, op, x, y)
    finally:
        ex.pure -= 1


def seq_equal(ex, a: SeqV, b: SeqV):
    na, nb = seq_len(a), seq_len(b)
    if a.is_concrete_len() and b.is_concrete_len():
        ia, ib = a.concrete_items(), b.concrete_items()
        if len(ia) != len(ib):
            return False
        res = True
        for x, y in zip(ia, ib):
            res = and_(ex, res, equals(ex, x, y))
            if res is False:
                return False
        return res
    i = z3.Int(ex.p.fresh_name("i"))
    e = equals(ex, seq_get(ex, a, Sym(i, "int")), seq_get(ex, b, Sym(i, "int")))
    nt = term(na, "int")
    body = z3.ForAll([i], z3.Implies(z3.And(i >= 0, i < nt), zbool(unwrap_bool(e))))
    return mk_bool(z3.And(nt == term(nb, "int"), body))


def iter_concrete(ex, v):
    """python list of items of a concrete-length iterable"""
    if isinstance(v, SeqV):
        return v.concrete_items()
    if isinstance(v, SetV):
        return list(v.items)
    if isinstance(v, MapV) and v.is_concrete():
        return [k for k, _ in v.items]
    if isinstance(v, str):
        return list(v)
    n, at = iter_view(ex, v)
    if isinstance(n, int):
        return [at(i) for i in range(n)]
    raise Unsupported(f"concrete iteration over {type(v).__name__}")


def iter_view(ex, v):
    """(n, item_at) for anything iterable"""
    from . import lib

    if isinstance(v, SeqV):
        n = seq_len(v)
        if isinstance(n, int):
            items = v.concrete_items()

            def at_concrete(i):
                if isinstance(i, int):
                    return items[i]
                if not items:
                    raise Unsupported("symbolic index into an empty sequence")
                it = i.t if isinstance(i, Sym) else i
                if all(type(x) is int for x in items) and all(x == items[0] + j for j, x in enumerate(items)):
                    return Sym(z3.simplify(it + items[0]), "int")  # consecutive integers: closed form (valid for indices in range)
                val = items[-1]
                for k in range(len(items) - 2, -1, -1):
                    val = ite(ex, it == k, items[k], val)
                return val

            return n, at_concrete
        src = v.copy()
        return n, (lambda i: seq_get(ex, src, _ix(i)))
    if isinstance(v, Arr2V):
        # iterating a 2-D array yields its rows
        a = v.copy()
        return a.rows, (lambda i: SeqV("array", [Blk(a.cols, lambda j, i=i: a.fn(i, j))], a.dtype))
    if isinstance(v, SetV):
        return len(v.items), (lambda i: v.items[i])
    if isinstance(v, MapV):
        if v.is_concrete():
            keys = [k for k, _ in v.items]
            return len(keys), (lambda i: keys[i])
        if v.keyseq is not None:
            return iter_view(ex, v.keyseq)
        raise Unsupported("iteration over functional map without key sequence")
    if isinstance(v, str):
        return len(v), (lambda i: v[i])
    r = lib.iter_view_special(ex, v)
    if r is not None:
        return r
    if v is None or num_kind(v):
        _raise("TypeError", "object is not iterable")
    raise Unsupported(f"iteration over {type(v).__name__}")


def list_extend(ex, lst: SeqV, other):
    if isinstance(other, SeqV):
        lst.segs = lst.segs + other.copy().segs
    else:
        lst.segs = lst.segs + [Lit(iter_concrete(ex, other))]


# ----------------------------------------------------------------------------- subscripts


def getitem(ex, v, idx):
    from . import lib

    if isinstance(v, SeqV):
        if isinstance(idx, SliceV):
            return seq_slice(ex, v, idx)
        if isinstance(idx, SeqV):
            if v.kind == "array":
                return lib.fancy_index(ex, v, idx)
            _raise("TypeError", "list indices must be integers")
        return seq_index_checked(ex, v, idx)
    if isinstance(v, Arr2V):
        return lib.arr2_getitem(ex, v, idx)
    if isinstance(v, MapV):
        return map_get(ex, v, idx)
    if isinstance(v, str):
        if isinstance(idx, SliceV):
            lo, hi, st = idx.lo, idx.hi, idx.step
            if all(x is None or (isinstance(x, int) and not isinstance(x, bool)) for x in (lo, hi, st)):
                return v[slice(lo, hi, st)]
            return lib.str_slice_symbolic(ex, v, idx)
        if isinstance(idx, int):
            if not (-len(v) <= idx < len(v)):
                _raise("IndexError")
            return v[idx]
        if isinstance(idx, Sym) and idx.ty == "int":
            if ex.pure == 0:
                if ex.p.branch(idx.t < 0, "negindex"):
                    raise Unsupported("possibly negative symbolic index")
                if not ex.p.branch(idx.t < len(v), "index"):
                    _raise("IndexError")
            return Sym(z3.SubString(z3.StringVal(v), idx.t, 1), "str")
        _raise("TypeError", "string indices must be integers")
    if isinstance(v, (WellV, RowLetterV, ColDigitsV, Sym)):
        return lib.str_getitem(ex, v, idx)
    if v is None:
        _raise("TypeError", "'NoneType' object is not subscriptable")
    r = lib.getitem_special(ex, v, idx)
    if r is not lib.NOATTR:
        return r
    raise Unsupported(f"subscript of {type(v).__name__}")


def setitem(ex, base, idx, v):
    from . import lib

    if isinstance(base, SeqV):
        if isinstance(idx, SliceV):
            raise Unsupported("slice assignment")
        n = seq_len(base)
        if isinstance(idx, int) and base.is_concrete_len():
            items = base.concrete_items()
            if not (-len(items) <= idx < len(items)):
                _raise("IndexError")
            items[idx] = v
            base.segs = [Lit(items)]
            return
        it = term(idx, "int")
        old = base.copy()
        base.segs = [Blk(n, lambda j: ite(ex, term(j, "int") == it, v, seq_get(ex, old, _ix(j))))]
        return
    if isinstance(base, Arr2V):
        return lib.arr2_setitem(ex, base, idx, v)
    if isinstance(base, MapV):
        return map_set(ex, base, idx, v)
    raise Unsupported(f"item assignment on {type(base).__name__}")


# ----------------------------------------------------------------------------- maps


def map_has(ex, m: MapV, key):
    if m.is_concrete():
        res = False
        for k, _ in m.items:
            e = equals(ex, k, key)
            if isinstance(e, bool):
                if e:
                    return True
            else:
                res = e if res is False else mk_bool(z3.Or(unwrap_bool(res), unwrap_bool(e)))
        return res
    return m.dom(key)


def map_get(ex, m: MapV, key, default=KeyError):
    key = to_abstract(key)
    if m.is_concrete():
        pending = []
        for k, val in reversed(m.items):
            e = equals(ex, to_abstract(k), key)
            if isinstance(e, bool):
                if e:
                    pending.append((True, val))
                    break
            else:
                pending.append((e, val))
        else:
            pending.append((None, None))
        # first matching wins (iterating from the newest entry)
        for cond, val in pending:
            if cond is True:
                return val
            if cond is None:
                break
            if ex.pure:
                raise Unsupported("symbolic key lookup in pure expression")
            if ex.p.branch(unwrap_bool(cond), "dictkey"):
                return val
        if default is KeyError:
            fac = getattr(m, "default_factory", None)
            if fac is not None:
                val = ex.call(fac, [], {})
                m.items.append((key, val))
                return val
            _raise("KeyError", key)
        return default
    has = m.dom(key)
    if isinstance(has, bool):
        ok = has
    elif ex.pure:
        ok = True  # in specs the lookup is total; the caller states the domain separately
    else:
        ok = ex.p.branch(unwrap_bool(has), "dictkey")
    if ok:
        return m.fn(key)
    if default is KeyError:
        _raise("KeyError", key)
    return default


def map_set(ex, m: MapV, key, val):
    if m.is_concrete():
        for i, (k, _) in enumerate(m.items):
            e = equals(ex, k, key)
            if isinstance(e, bool):
                if e:
                    m.items[i] = (k, val)
                    return
            else:
                if ex.p.branch(unwrap_bool(e), "dictkey"):
                    m.items[i] = (k, val)
                    return
        m.items.append((key, val))
        return
    olddom, oldfn = m.dom, m.fn

    def dom(k2):
        e = equals(ex, k2, key)
        d = olddom(k2)
        if isinstance(e, bool):
            return True if e else d
        if isinstance(d, bool):
            return True if d else e
        return mk_bool(z3.Or(unwrap_bool(e), unwrap_bool(d)))

    def fn(k2):
        e = equals(ex, k2, key)
        if isinstance(e, bool):
            return val if e else oldfn(k2)
        return ite(ex, unwrap_bool(e), val, oldfn(k2))

    m.dom, m.fn = dom, fn
    m.keyseq = None


# ----------------------------------------------------------------------------- comprehensions


def comprehension(ex, node, fr, kind):
    from .engine import Frame

    gens = node.generators
    if any(g.is_async for g in gens):
        raise Unsupported("async comprehension")

    def rec(gi, env):
        g = gens[gi]
        f2 = Frame(ex, fr.func, env)
        f2.mi = getattr(fr, "mi", None)
        f2.spec_visible = getattr(fr, "spec_visible", False)
        f2.loop_ordinal = fr.loop_ordinal
        itv = ex.eval(g.iter, f2)
        n, at = iter_view(ex, itv)
        if isinstance(n, int):
            out = []
            for i in range(n):
                e2 = dict(env)
                f3 = Frame(ex, fr.func, e2)
                f3.mi, f3.spec_visible, f3.loop_ordinal = f2.mi, f2.spec_visible, fr.loop_ordinal
                ex.assign(g.target, at(i), f3)
                ok = True
                for cond in g.ifs:
                    if not ex.test(ex.eval(cond, f3), "compif"):
                        ok = False
                        break
                if not ok:
                    continue
                if gi + 1 < len(gens):
                    out.extend(rec(gi + 1, e2).concrete_items())
                else:
                    out.append(ex.eval(node.elt, f3))
            return SeqV.of(kind, out)
        # symbolic length: a block, element computed lazily (pure)
        if g.ifs or gi + 1 < len(gens):
            raise Unsupported("filtered / nested comprehension over a symbolic range")

        def elem(j):
            e2 = dict(env)
            f3 = Frame(ex, fr.func, e2)
            f3.mi, f3.spec_visible, f3.loop_ordinal = f2.mi, f2.spec_visible, fr.loop_ordinal
            ex.assign(g.target, at(_ix(j) if not isinstance(j, int) else j), f3)
            ex.pure += 1
            try:
                return ex.eval(node.elt, f3)
            finally:
                ex.pure -= 1

        return SeqV(kind, [Blk(n, elem)])

    return rec(0, dict(fr.env))


def dict_comprehension(ex, node, fr):
    from . import lib

    return lib.dict_comprehension(ex, node, fr)


# ----------------------------------------------------------------------------- records as ropes


def _flatten_concat(t, out):
    if z3.is_app(t) and t.decl().kind() == z3.Z3_OP_SEQ_CONCAT:
        for c in t.children():
            _flatten_concat(c, out)
    else:
        out.append(t)


def rope_fields(t, sep=";"):
    """Split a string term at the separator characters of its literal pieces -> list of fields (each a list of pieces)."""
    pieces = []
    _flatten_concat(t, pieces)
    fields = [[]]
    for p in pieces:
        if z3.is_string_value(p):
            parts = p.as_string().split(sep)
            for k, part in enumerate(parts):
                if k > 0:
                    fields.append([])
                if part:
                    fields[-1].append(z3.StringVal(part))
        else:
            fields[-1].append(p)
    return fields


def _field_term(pieces):
    if not pieces:
        return z3.StringVal("")
    if len(pieces) == 1:
        return pieces[0]
    return z3.Concat(*pieces)


_INJECTIVE = ("istr", "rstr", "wellstr")


def field_equal(a, b):
    """equality of two field terms, using injectivity of the number printers"""
    if z3.is_app(a) and z3.is_app(b) and a.decl().kind() == z3.Z3_OP_UNINTERPRETED and b.decl().kind() == z3.Z3_OP_UNINTERPRETED \
            and a.decl().name() == b.decl().name() and a.decl().name() in _INJECTIVE:
        return z3.And(*[x == y for x, y in zip(a.children(), b.children())])
    if z3.is_app(a) and a.decl().kind() == z3.Z3_OP_ITE and z3.is_app(b) and b.decl().kind() == z3.Z3_OP_ITE:
        ca, a1, a2 = a.children()
        cb, b1, b2 = b.children()
        if z3.eq(ca, cb):
            return z3.If(ca, field_equal(a1, b1), field_equal(a2, b2))
    for lit, fn in ((a, b), (b, a)):
        if z3.is_string_value(lit) and z3.is_app(fn) and fn.decl().kind() == z3.Z3_OP_UNINTERPRETED:
            sv = lit.as_string()
            if fn.decl().name() == "istr":
                # str(int) of a concrete value is its decimal numeral (and only that)
                if sv.lstrip("-").isdigit() and str(int(sv)) == sv:
                    return fn.children()[0] == int(sv)
                return z3.BoolVal(False)
            if fn.decl().name() == "rstr":
                try:
                    fv = float(sv)
                except ValueError:
                    return z3.BoolVal(False)
                if repr(fv) == sv and fv == fv and fv not in (float("inf"), float("-inf")):
                    from fractions import Fraction

                    return fn.children()[0] == z3.RealVal(str(Fraction(fv)))
    if z3.is_app(a) and a.decl().kind() == z3.Z3_OP_ITE:
        c, x, y = a.children()
        return z3.If(c, field_equal(x, b), field_equal(y, b))
    if z3.is_app(b) and b.decl().kind() == z3.Z3_OP_ITE:
        c, x, y = b.children()
        return z3.If(c, field_equal(a, x), field_equal(a, y))
    # quoted numbers: "\"" ++ rstr(x) ++ "\""
    pa, pb = [], []
    _flatten_concat(a, pa)
    _flatten_concat(b, pb)
    if len(pa) == len(pb) and len(pa) > 1:
        return z3.And(*[field_equal(x, y) for x, y in zip(pa, pb)])
    # a literal against literal-prefix ++ X ++ literal-suffix: compare the middle
    for lit, pieces in ((pa, pb), (pb, pa)):
        if len(lit) == 1 and z3.is_string_value(lit[0]) and len(pieces) > 1:
            sv = lit[0].as_string()
            ps = list(pieces)
            ok = True
            while ps and z3.is_string_value(ps[0]):
                pre = ps.pop(0).as_string()
                if not sv.startswith(pre):
                    ok = False
                    break
                sv = sv[len(pre):]
            while ok and ps and z3.is_string_value(ps[-1]):
                suf = ps.pop().as_string()
                if not sv.endswith(suf):
                    ok = False
                    break
                sv = sv[: len(sv) - len(suf)]
            if not ok:
                return z3.BoolVal(False)
            if len(ps) == 1:
                return field_equal(z3.StringVal(sv), ps[0])
            if not ps:
                return z3.BoolVal(sv == "")
    return a == b


def record_equal(ex, a, b):
    """a record string (rope built by the code) against a spec record: field-wise equality, which implies equality
    of the strings (and is equivalent to it when the fields are separator-free)."""
    if isinstance(a, RecV) and isinstance(b, RecV):
        if len(a.fields) != len(b.fields) or a.sep != b.sep:
            return False
        if isinstance(a.kind, str) and isinstance(b.kind, str) and a.kind != b.kind:
            return False
        fixed = mk_bool(z3.And(field_equal(term(a.kind), term(b.kind)), *[field_equal(term(x), term(y)) for x, y in zip(a.fields, b.fields)]))
        if a.tail is None and b.tail is None:
            return fixed
        ta = a.tail if a.tail is not None else SeqV("list")
        tb = b.tail if b.tail is not None else SeqV("list")
        return and_(ex, fixed, seq_equal(ex, ta, tb))
    rec, s = (a, b) if isinstance(a, RecV) else (b, a)
    if isinstance(s, str):
        st = z3.StringVal(s)
    elif isinstance(s, Sym) and s.ty == "str":
        st = s.t
    else:
        return False
    if rec.tail is not None:
        n = seq_len(rec.tail)
        if isinstance(n, int):
            rec = RecV(rec.kind, rec.fields + rec.tail.concrete_items(), rec.sep)
        else:
            # undetermined here: an unconstrained boolean (gives no information in either polarity)
            return mk_bool(z3.Bool(ex.p.fresh_name("rec_vs_str")))
    fields = rope_fields(st, rec.sep)
    want = [term(rec.kind)] + [term(f) for f in rec.fields]
    if len(fields) != len(want):
        # different number of separators in the literal skeleton: fall back to plain string equality
        return mk_bool(st == record_string(rec))
    return mk_bool(z3.And(*[field_equal(_field_term(f), w) for f, w in zip(fields, want)]))


def record_string(rec):
    parts = [term(rec.kind)]
    for f in rec.fields:
        parts.append(z3.StringVal(rec.sep))
        parts.append(term(f))
    return z3.Concat(*parts)


def _struct_eq(p, q):
    if p is q:
        return True
    if isinstance(p, WellV) and isinstance(q, WellV):
        return _teq(p.r, q.r) and _teq(p.c, q.c)
    if isinstance(p, Sym) and isinstance(q, Sym):
        return z3.eq(p.t, q.t)
    if isinstance(p, EnumV) and isinstance(q, EnumV):
        return _struct_eq(p.value, q.value) if not (isinstance(p.value, int) and isinstance(q.value, int)) else p.value == q.value
    return type(p) == type(q) and is_concrete_scalar(p) and p == q


def _teq(a, b):
    if isinstance(a, int) and isinstance(b, int):
        return a == b
    return z3.is_expr(a) and z3.is_expr(b) and z3.eq(a, b)
