"""Discharge verification conditions with z3 (Python API), falling back to the cvc5 CLI for `unknown`."""
from __future__ import annotations

import os
import subprocess
import tempfile
import time
from fractions import Fraction

import z3


class Verdict:
    def __init__(self, name, status, backend, secs, model=None, reason="", meta=None, smt_size=0):
        self.name = name
        self.status = status  # 'proved' | 'refuted' | 'unknown'
        self.backend = backend
        self.secs = secs
        self.model = model
        self.reason = reason
        self.meta = meta or {}
        self.smt_size = smt_size


def _model_dict(m):
    out = {}
    for d in m.decls():
        try:
            v = m[d]
            if d.arity() == 0:
                out[d.name()] = str(v)
        except z3.Z3Exception:
            pass
    return out


# Seconds this run has spent on obligations that did not end `proved` (shared by all worker processes of a check).  A run
# with such obligations cannot end with `held`, so once the tally passes a threshold the remaining obligations get short
# budgets only: a changed tree must not turn a minutes-long check into an hours-long one.  On a tree where every
# obligation is proved the tally stays 0 and every obligation has the full budget.
SHARED_TALLY = None
_LOCAL_TALLY = [0.0]
DEGRADE_AFTER_S = 300.0   # then: one 1.5 s attempt + 2 s search for a small counter-model
SKIP_AFTER_S = 1500.0     # then: one 1 s attempt only


def _tally(add=0.0):
    if SHARED_TALLY is not None:
        with SHARED_TALLY.get_lock():
            SHARED_TALLY.value += add
            return SHARED_TALLY.value
    _LOCAL_TALLY[0] += add
    return _LOCAL_TALLY[0]


def discharge(vc, timeout_ms=10000, use_cvc5=True, keep_model=True):
    spent = _tally()
    v = _discharge(vc, timeout_ms, use_cvc5, keep_model, 2 if spent > SKIP_AFTER_S else (1 if spent > DEGRADE_AFTER_S else 0))
    if v.status == "refuted":  # the run has its violation: further obligations only add detail
        _tally(v.secs + 500.0)
    elif v.status != "proved":
        _tally(v.secs)
    return v


def _discharge(vc, timeout_ms, use_cvc5, keep_model, degraded):
    if degraded:
        timeout_ms = min(timeout_ms, 3000)
    split = vc.meta.get("split") if vc.meta else None
    if split is not None:
        # case split requested by the contract: every case and the complement must be discharged
        st, vals = split
        t0 = time.time()
        cases = [st == v for v in vals] + [z3.Not(z3.Or(*[st == v for v in vals]))]
        worst = None
        for c in cases:
            sub = type(vc)(vc.name, list(vc.pc) + [c], vc.goal, {k: v for k, v in vc.meta.items() if k != "split"})
            v = _discharge(sub, timeout_ms, use_cvc5, keep_model, degraded)
            if v.status == "refuted":
                v.secs = time.time() - t0
                return v
            if v.status == "unknown":
                worst = v
        if worst is not None:
            worst.secs = time.time() - t0
            return worst
        v.secs = time.time() - t0
        return v
    t0 = time.time()
    # first a short attempt with everything (most obligations are easy)
    s1 = z3.Solver()
    s1.set("timeout", (1500 if degraded == 1 else 1000) if degraded else min(3000, max(500, timeout_ms // 4)))
    for c in vc.pc:
        s1.add(c)
    s1.add(z3.Not(vc.goal))
    try:
        r1 = s1.check()
    except z3.Z3Exception:
        r1 = z3.unknown
    if r1 == z3.unsat:
        return Verdict(vc.name, "proved", "z3", time.time() - t0, meta=vc.meta, smt_size=len(s1.sexpr()))
    if degraded and r1 == z3.unknown and (vc.meta or {}).get("_conjunct"):
        for hops in (0, 1):
            sub = _relevant(vc.pc, vc.goal, hops)
            s0 = z3.Solver()
            s0.set("timeout", timeout_ms)
            for c in sub:
                s0.add(c)
            s0.add(z3.Not(vc.goal))
            try:
                if s0.check() == z3.unsat:
                    return Verdict(vc.name, "proved", "z3", time.time() - t0, meta=vc.meta)
            except z3.Z3Exception:
                pass
        return Verdict(vc.name, "unknown", "z3", time.time() - t0, reason="conjunct undecided", meta=vc.meta)
    if degraded and r1 == z3.unknown:
        m = _model_search(vc, s1, budget_s=2) if degraded == 1 else None
        if m is not None:
            return Verdict(vc.name, "refuted", "z3+enum", time.time() - t0, model=m if keep_model else None, meta=vc.meta)
        return Verdict(vc.name, "unknown", "z3", time.time() - t0, reason="short budget only: this run already has undecided obligations", meta=vc.meta)
    if r1 == z3.unknown and z3.is_and(vc.goal) and vc.goal.num_args() > 1 and not (vc.meta or {}).get("_conjunct"):
        # a conjunction the solver cannot decide as a whole: every conjunct on its own (each then gets its own
        # relevance filtering); all proved => proved, otherwise fall through to the stages below for the whole goal
        allp = True
        flat, todo = [], list(vc.goal.children())
        while todo:
            g = todo.pop(0)
            if z3.is_and(g):
                todo = list(g.children()) + todo
            else:
                flat.append(g)
        for g in flat:
            sub = type(vc)(vc.name, vc.pc, g, dict(vc.meta or {}, _conjunct=True))
            v = _discharge(sub, min(timeout_ms, 5000), False, False, 1)
            if v.status != "proved":
                allp = False
                break
        if allp:
            return Verdict(vc.name, "proved", "z3", time.time() - t0, meta=vc.meta)
    if r1 == z3.unknown:
        # nonlinear real arithmetic mixed with integrality: abstract the nonlinear terms (sound for `unsat`)
        try:
            abst, n_repl = _nl_abstract(list(vc.pc) + [z3.Not(vc.goal)])
        except z3.Z3Exception:
            n_repl = 0
        if n_repl:
            sa = z3.Solver()
            sa.set("timeout", 3000 if degraded else timeout_ms)
            for c in abst:
                sa.add(c)
            try:
                if sa.check() == z3.unsat:
                    return Verdict(vc.name, "proved", "z3", time.time() - t0, meta=vc.meta, smt_size=len(sa.sexpr()))
            except z3.Z3Exception:
                pass
    if r1 == z3.unknown and use_cvc5:
        v = _cvc5(vc, s1, 5)
        if v is not None:
            v.secs = time.time() - t0
            return v
    # staged relevance filtering: dropping hypotheses is sound for `unsat`; only the full set may answer `sat`
    if len(vc.pc) > 6 and r1 != z3.sat:
        for hops in (0, 1, 2):
            sub = _relevant(vc.pc, vc.goal, hops)
            if len(sub) >= len(vc.pc):
                break
            s0 = z3.Solver()
            s0.set("timeout", timeout_ms)
            for c in sub:
                s0.add(c)
            s0.add(z3.Not(vc.goal))
            try:
                if s0.check() == z3.unsat:
                    return Verdict(vc.name, "proved", "z3", time.time() - t0, meta=vc.meta, smt_size=len(s0.sexpr()))
            except z3.Z3Exception:
                pass
    s = z3.Solver()
    # generous last attempt: an `unknown` on the unchanged tree is far more costly than a slow run (the machine that
    # runs the checks may be many times slower / busier than the one they were written on)
    s.set("timeout", timeout_ms * (1 if degraded else 12))
    for c in vc.pc:
        s.add(c)
    s.add(z3.Not(vc.goal))
    try:
        r = s.check()
    except z3.Z3Exception as e:
        return Verdict(vc.name, "unknown", "z3", time.time() - t0, reason=f"z3 exception {e}", meta=vc.meta)
    size = 0
    if r == z3.unsat:
        return Verdict(vc.name, "proved", "z3", time.time() - t0, meta=vc.meta, smt_size=len(s.sexpr()))
    if r == z3.sat:
        m = s.model()
        # prefer a small counter-model (replays rebuild real objects from it)
        ints = [p for p in _free_numeric_params(vc) if z3.is_int(p)]
        if ints:
            s.set("timeout", 1500)
            for bound in (6, 30):
                s.push()
                for p in ints:
                    s.add(p <= bound, p >= -bound)
                try:
                    if s.check() == z3.sat:
                        m = s.model()
                        s.pop()
                        break
                except z3.Z3Exception:
                    pass
                s.pop()
        return Verdict(vc.name, "refuted", "z3", time.time() - t0, model=m if keep_model else None, meta=vc.meta,
                       smt_size=len(s.sexpr()))
    reason = s.reason_unknown()
    # the solver could neither prove nor refute: look for a counter-model among small concrete parameter values
    m = _model_search(vc, s, budget_s=8 if degraded else 45)
    if m is not None:
        return Verdict(vc.name, "refuted", "z3+enum", time.time() - t0, model=m if keep_model else None, meta=vc.meta,
                       smt_size=len(s.sexpr()))
    if use_cvc5:
        v = _cvc5(vc, s, 5 if degraded else max(30, 6 * timeout_ms // 1000))
        if v is not None:
            v.secs = time.time() - t0
            return v
    return Verdict(vc.name, "unknown", "z3", time.time() - t0, reason=reason, meta=vc.meta)


def _free_numeric_params(vc):
    seen, out = set(), {}
    stack = list(vc.pc) + [vc.goal]
    while stack:
        x = stack.pop()
        if x.get_id() in seen:
            continue
        seen.add(x.get_id())
        if z3.is_quantifier(x):
            stack.append(x.body())
        elif z3.is_app(x):
            if z3.is_const(x) and x.decl().kind() == z3.Z3_OP_UNINTERPRETED and "!" not in x.decl().name():
                if z3.is_int(x) or z3.is_real(x):
                    out[x.decl().name()] = x
            stack.extend(x.children())
    return [out[k] for k in sorted(out)]


def _model_search(vc, solver, tries=160, per_ms=250, budget_s=45):
    import random

    params = _free_numeric_params(vc)
    if not params:
        return None
    rng = random.Random(12345)
    ints = [0, 1, 2, 3, 4, 5, 6, 7, 8, 9, 10, 16, 32, 64, 100, 128]
    reals = ["0", "1", "2", "3", "1/2", "3/2", "5/2", "7/2", "1/4", "10", "100", "950", "1/10"]
    solver.set("timeout", per_ms)
    t_end = time.time() + budget_s
    for k in range(tries):
        if time.time() > t_end:
            break
        solver.push()
        skip = (0.15, 0.35, 0.6, 0.8)[k % 4]
        for p in params:
            if rng.random() < skip:
                continue
            if z3.is_int(p):
                solver.add(p == rng.choice(ints))
            else:
                solver.add(p == z3.RealVal(rng.choice(reals)))
        try:
            r = solver.check()
        except z3.Z3Exception:
            r = z3.unknown
        if r == z3.sat:
            m = solver.model()
            solver.pop()
            return m
        solver.pop()
    return None



# ----------------------------------------------------------------------------- nonlinear abstraction
_NLMUL = z3.Function("nl_mul", z3.RealSort(), z3.RealSort(), z3.RealSort())
_NLDIV = z3.Function("nl_div", z3.RealSort(), z3.RealSort(), z3.RealSort())


def _nl_abstract(exprs):
    """Replace products of two non-constant factors and quotients by a non-constant divisor (outside quantifiers) by
    applications of uninterpreted functions.  Every model of the original formulas is a model of the abstraction
    (interpret nl_mul / nl_div as * and /), so `unsat` of the abstraction proves `unsat` of the original.
    Returns (abstracted formulas, number of replaced terms)."""
    cache = {}
    count = [0]

    def num(e):
        return z3.is_rational_value(e) or z3.is_int_value(e)

    def go(e):
        i = e.get_id()
        if i in cache:
            return cache[i]
        if not z3.is_app(e) or z3.is_const(e):
            cache[i] = e
            return e
        kids = [go(c) for c in e.children()]
        k = e.decl().kind()
        out = None
        if k == z3.Z3_OP_MUL and z3.is_real(e):
            consts = [c for c in kids if num(c)]
            others = [c for c in kids if not num(c)]
            if len(others) >= 2:
                acc = others[0]
                for o in others[1:]:
                    acc = _NLMUL(acc, o)
                    count[0] += 1
                out = acc
                for c in consts:
                    out = c * out
        elif k == z3.Z3_OP_DIV and z3.is_real(e) and not num(kids[1]):
            out = _NLDIV(kids[0], kids[1])
            count[0] += 1
        if out is None:
            try:
                out = e.decl()(*kids) if kids else e
            except z3.Z3Exception:
                out = e
        cache[i] = out
        return out

    return [go(x) for x in exprs], count[0]

_sym_cache = {}


def _has_quant(e):
    seen = set()
    stack = [e]
    while stack:
        x = stack.pop()
        if x.get_id() in seen:
            continue
        seen.add(x.get_id())
        if z3.is_quantifier(x):
            return True
        if z3.is_app(x):
            stack.extend(x.children())
    return False


def _symbols(e):
    key = e.get_id()
    if key in _sym_cache:
        return _sym_cache[key]
    out = set()
    seen = set()
    stack = [e]
    while stack:
        x = stack.pop()
        i = x.get_id()
        if i in seen:
            continue
        seen.add(i)
        if z3.is_app(x):
            d = x.decl()
            if d.kind() == z3.Z3_OP_UNINTERPRETED:
                out.add(d.name() if d.arity() == 0 else "fn:" + d.name())
            stack.extend(x.children())
        elif z3.is_quantifier(x):
            stack.append(x.body())
    _sym_cache[key] = out
    return out


def _relevant(pc, goal, hops):
    syms = set(_symbols(goal))
    hs = [_symbols(c) for c in pc]
    if hops == 0:  # only hypotheses that speak exclusively about the goal's symbols
        return [c for c, h in zip(pc, hs) if h <= syms]
    keep = [False] * len(pc)
    quant = [_has_quant(c) for c in pc]
    for _ in range(hops):
        new = set()
        for i, h in enumerate(hs):
            shared = h & syms
            if quant[i]:  # quantified axioms only when they share a function symbol
                shared = {x for x in shared if x.startswith("fn:")}
            if not keep[i] and shared:
                keep[i] = True
                new |= h
        if not new - syms:
            break
        syms |= new
    # hypotheses without any uninterpreted symbol (pure constants) are kept
    return [c for i, c in enumerate(pc) if keep[i] or not hs[i]]


def _cvc5(vc, solver, tlimit_s):
    exe = "/usr/bin/cvc5"
    if not os.path.exists(exe):
        return None
    try:
        smt = solver.to_smt2()
    except z3.Z3Exception:
        return None
    if "define-fun-rec" in smt or "pow2" in smt and False:
        pass
    with tempfile.NamedTemporaryFile("w", suffix=".smt2", delete=False, dir=os.environ.get("TMPDIR", "/tmp")) as fh:
        fh.write("(set-logic ALL)\n" + smt)
        fn = fh.name
    try:
        out = subprocess.run([exe, "--strings-exp", f"--tlimit={tlimit_s * 1000}", fn], capture_output=True, text=True,
                             timeout=tlimit_s + 5)
        ans = out.stdout.strip().splitlines()[:1]
        if ans == ["unsat"]:
            return Verdict(vc.name, "proved", "cvc5", 0, meta=vc.meta, smt_size=len(smt))
        # a cvc5 `sat` carries no model we can replay here: leave it undecided
        return None
    except (subprocess.TimeoutExpired, OSError):
        return None
    finally:
        try:
            os.unlink(fn)
        except OSError:
            pass


def model_value(m, t):
    """Python value of z3 term t under model m (ints, Fractions, bools, strs)."""
    v = m.eval(t, model_completion=True)
    if z3.is_int_value(v):
        return v.as_long()
    if z3.is_rational_value(v):
        return Fraction(v.numerator_as_long(), v.denominator_as_long())
    if z3.is_algebraic_value(v):
        a = v.approx(20)
        return Fraction(a.numerator_as_long(), a.denominator_as_long())
    if z3.is_true(v):
        return True
    if z3.is_false(v):
        return False
    if z3.is_string_value(v):
        return v.as_string()
    return str(v)
