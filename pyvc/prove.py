"""Discharge verification conditions with z3 (Python API), falling back to the cvc5 CLI for `unknown`."""
from __future__ import annotations

import os
import subprocess
import tempfile
import time
from fractions import Fraction

import z3


class Verdict:
    def __init__(self, name, status, backend, secs, model=None, reason="", meta=None, smt_size=0):
        self.name = name
        self.status = status  # 'proved' | 'refuted' | 'unknown'
        self.backend = backend
        self.secs = secs
        self.model = model
        self.reason = reason
        self.meta = meta or {}
        self.smt_size = smt_size


def _model_dict(m):
    out = {}
    for d in m.decls():
        try:
            v = m[d]
            if d.arity() == 0:
                out[d.name()] = str(v)
        except z3.Z3Exception:
            pass
    return out


def discharge(vc, timeout_ms=10000, use_cvc5=True, keep_model=True):
    t0 = time.time()
    s = z3.Solver()
    s.set("timeout", timeout_ms)
    for c in vc.pc:
        s.add(c)
    s.add(z3.Not(vc.goal))
    try:
        r = s.check()
    except z3.Z3Exception as e:
        return Verdict(vc.name, "unknown", "z3", time.time() - t0, reason=f"z3 exception {e}", meta=vc.meta)
    size = 0
    if r == z3.unsat:
        return Verdict(vc.name, "proved", "z3", time.time() - t0, meta=vc.meta, smt_size=len(s.sexpr()))
    if r == z3.sat:
        m = s.model()
        return Verdict(vc.name, "refuted", "z3", time.time() - t0, model=m if keep_model else None, meta=vc.meta,
                       smt_size=len(s.sexpr()))
    reason = s.reason_unknown()
    if use_cvc5:
        v = _cvc5(vc, s, max(2, timeout_ms // 1000))
        if v is not None:
            v.secs = time.time() - t0
            return v
    return Verdict(vc.name, "unknown", "z3", time.time() - t0, reason=reason, meta=vc.meta)


def _cvc5(vc, solver, tlimit_s):
    exe = "/usr/bin/cvc5"
    if not os.path.exists(exe):
        return None
    try:
        smt = solver.to_smt2()
    except z3.Z3Exception:
        return None
    if "define-fun-rec" in smt or "pow2" in smt and False:
        pass
    with tempfile.NamedTemporaryFile("w", suffix=".smt2", delete=False, dir=os.environ.get("TMPDIR", "/tmp")) as fh:
        fh.write("(set-logic ALL)\n" + smt)
        fn = fh.name
    try:
        out = subprocess.run([exe, "--strings-exp", f"--tlimit={tlimit_s * 1000}", fn], capture_output=True, text=True,
                             timeout=tlimit_s + 5)
        ans = out.stdout.strip().splitlines()[:1]
        if ans == ["unsat"]:
            return Verdict(vc.name, "proved", "cvc5", 0, meta=vc.meta, smt_size=len(smt))
        # a cvc5 `sat` carries no model we can replay here: leave it undecided
        return None
    except (subprocess.TimeoutExpired, OSError):
        return None
    finally:
        try:
            os.unlink(fn)
        except OSError:
            pass


def model_value(m, t):
    """Python value of z3 term t under model m (ints, Fractions, bools, strs)."""
    v = m.eval(t, model_completion=True)
    if z3.is_int_value(v):
        return v.as_long()
    if z3.is_rational_value(v):
        return Fraction(v.numerator_as_long(), v.denominator_as_long())
    if z3.is_algebraic_value(v):
        a = v.approx(20)
        return Fraction(a.numerator_as_long(), a.denominator_as_long())
    if z3.is_true(v):
        return True
    if z3.is_false(v):
        return False
    if z3.is_string_value(v):
        return v.as_string()
    return str(v)
