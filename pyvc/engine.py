"""pyvc symbolic executor: interprets the Python AST of the real repo source, path by path,
and produces verification conditions (VCs) for z3.

Control flow of the interpreted program uses host exceptions:
  ReturnEx / PyRaise / BreakEx / ContinueEx / PathEnd.
Paths are explored by re-execution with a recorded list of branch decisions.
"""
from __future__ import annotations

import ast
import itertools

import z3

from . import ops
from .loader import Repo
from .values import (
    Arr2V,
    Blk,
    EnumV,
    ExcV,
    Lit,
    MapV,
    Obj,
    Opaque,
    SeqV,
    SetV,
    Sym,
    Unsupported,
    WellV,
    term,
)


class ReturnEx(Exception):
    def __init__(self, value):
        self.value = value


class PyRaise(Exception):
    """The interpreted program raises `exc` (an ExcV)."""

    def __init__(self, exc):
        self.exc = exc


class BreakEx(Exception):
    pass


class ContinueEx(Exception):
    pass


class PathEnd(Exception):
    """This path ends here (infeasible, or end of a loop-cut body)."""

    def __init__(self, why=""):
        self.why = why


# ----------------------------------------------------------------------------- reference values


class ModuleRef:
    def __init__(self, name):
        self.name = name

    def __repr__(self):
        return f"Module<{self.name}>"


class BuiltinV:
    def __init__(self, name):
        self.name = name

    def __repr__(self):
        return f"Builtin<{self.name}>"


class FuncV:
    def __init__(self, mi, qualname, node, cls=None):
        self.mi = mi
        self.qualname = qualname
        self.node = node
        self.cls = cls

    @property
    def dotted(self):
        return f"{self.mi.name}.{self.qualname}"

    def __repr__(self):
        return f"Func<{self.dotted}>"


class ClassV:
    def __init__(self, mi, node):
        self.mi = mi
        self.node = node
        self.name = node.name

    def __repr__(self):
        return f"Class<{self.name}>"


class BoundV:
    def __init__(self, recv, func):
        self.recv = recv
        self.func = func


class LibMethod:
    def __init__(self, recv, name):
        self.recv = recv
        self.name = name

    def __repr__(self):
        return f"LibMethod<{self.name}>"


class Closure:
    def __init__(self, node, ex, env):
        self.node = node
        self.ex = ex
        self.env = env


class HostFn:
    """A host-python callable exposed to interpreted code (spec functions)."""

    def __init__(self, fn, name=None):
        self.fn = fn
        self.name = name or getattr(fn, "__name__", "hostfn")


BUILTIN_EXC = {
    "BaseException": None,
    "Exception": "BaseException",
    "ValueError": "Exception",
    "TypeError": "Exception",
    "KeyError": "LookupError",
    "IndexError": "LookupError",
    "LookupError": "Exception",
    "AssertionError": "Exception",
    "ZeroDivisionError": "ArithmeticError",
    "ArithmeticError": "Exception",
    "OverflowError": "ArithmeticError",
    "AttributeError": "Exception",
    "NotImplementedError": "RuntimeError",
    "RuntimeError": "Exception",
    "StopIteration": "Exception",
}

BUILTIN_NAMES = {
    "len", "max", "min", "sum", "abs", "all", "any", "range", "zip", "enumerate", "map", "sorted", "list", "tuple",
    "set", "dict", "float", "int", "str", "bool", "isinstance", "round", "chr", "ord", "open", "callable", "type",
    "print", "iter", "next", "reversed", "object", "super", "frozenset", "divmod", "repr", "getattr", "hasattr",
}


# ----------------------------------------------------------------------------- path


class VC:
    __slots__ = ("name", "pc", "goal", "meta")

    def __init__(self, name, pc, goal, meta):
        self.name = name
        self.pc = pc
        self.goal = goal
        self.meta = meta


class Path:
    def __init__(self, decisions, budget_ms=2000):
        self.dec = list(decisions)
        self.di = 0
        self.alts = []
        self.pc = []
        self.vcs = []
        self.solver = z3.Solver()
        self.solver.set("timeout", budget_ms)
        self.counter = itertools.count()
        self.notes = []
        self.trace = []  # human-readable branch trace
        self.ghost = {}

    # -- fresh symbols (names are deterministic along a replayed path)
    def fresh_name(self, base):
        return f"{base}!{next(self.counter)}"

    def fresh(self, base, ty, np=False):
        n = self.fresh_name(base)
        if ty == "int":
            return Sym(z3.Int(n), "int", np)
        if ty == "real":
            return Sym(z3.Real(n), "real", np)
        if ty == "bool":
            return Sym(z3.Bool(n), "bool", np)
        if ty == "str":
            return Sym(z3.String(n), "str", np)
        raise Unsupported(f"fresh of type {ty}")

    def assume(self, cond):
        if isinstance(cond, bool):
            if not cond:
                raise PathEnd("assumed False")
            return
        cond = z3.simplify(cond)
        if z3.is_true(cond):
            return
        self.pc.append(cond)
        self.solver.add(cond)

    def feasible(self, cond=None):
        r = self.solver.check() if cond is None else self.solver.check(cond)
        return r != z3.unsat

    def branch(self, cond, tag=""):
        """Fork on a condition; returns the host bool chosen on this path."""
        if isinstance(cond, bool):
            return cond
        cond = z3.simplify(cond)
        if z3.is_true(cond):
            return True
        if z3.is_false(cond):
            return False
        if self.di < len(self.dec):
            choice = self.dec[self.di]
            self.di += 1
        else:
            ft = self.feasible(cond)
            ff = self.feasible(z3.Not(cond))
            if ft and ff:
                choice = True
                self.alts.append(self.dec + [False])
            elif ft:
                choice = True
            elif ff:
                choice = False
            else:
                raise PathEnd("infeasible")
            self.dec.append(choice)
            self.di += 1
        c = cond if choice else z3.Not(cond)
        self.pc.append(c)
        self.solver.add(c)
        self.trace.append((tag, choice))
        return choice

    def choose(self, n, tag=""):
        """Non-deterministic n-way choice (loop cuts, contract outcome cases)."""
        if self.di < len(self.dec):
            choice = self.dec[self.di]
            self.di += 1
        else:
            choice = 0
            for k in range(n - 1, 0, -1):
                self.alts.append(self.dec + [k])
            self.dec.append(0)
            self.di += 1
        self.trace.append((tag, choice))
        return choice

    def check(self, name, goal, meta=None):
        """Record a verification condition: pc => goal."""
        if isinstance(goal, bool):
            goal = z3.BoolVal(goal)
        self.vcs.append(VC(name, list(self.pc), goal, meta or {}))


# ----------------------------------------------------------------------------- loop specs


class LoopSpec:
    def __init__(self, k="k", invariants=(), defs=None, modifies=(), ghost_defs=None, havoc_types=None, asserts=(),
                 split=None, exit_asserts=(), entry=None):
        self.entry = dict(entry or {})  # name -> expression evaluated once at loop entry (snapshot of heap state for the invariants)
        self.exit_asserts = list(exit_asserts)  # stepping stones proved, then assumed, right after the loop
        self.asserts = list(asserts)  # proved, then assumed, at the start of an arbitrary iteration
        self.split = split  # (expression text, [values]): case split for the preservation VCs
        self.k = k
        self.invariants = list(invariants)
        self.defs = dict(defs or {})  # var (or 'self.field') -> expression text defining it at iteration k
        self.modifies = list(modifies)  # extra heap paths 'obj.field'
        self.ghost_defs = dict(ghost_defs or {})
        self.havoc_types = dict(havoc_types or {})


# ----------------------------------------------------------------------------- executor


class World:
    """Everything shared by the executions of one run: repo, contracts, spec namespace."""

    def __init__(self, repo=None):
        self.repo = repo or Repo()
        self.contracts = {}  # dotted -> Contract
        self.spec_ns = {}  # name -> HostFn / values visible in contract expressions
        self.inline_depth_limit = 12
        self.dropped = set()
        self.lemmas = []

    def funcv(self, dotted):
        mi, qn, node = self.repo.find_function(dotted)
        cls = qn.split(".")[0] if "." in qn else None
        return FuncV(mi, qn, node, cls)


class Frame:
    def __init__(self, ex, func: FuncV, env):
        self.ex = ex
        self.func = func
        self.env = env
        self.loop_ordinal = {}
        if func is not None:
            n = 0
            for node in ast.walk(func.node):
                pass
            order = []

            def visit(nd):
                for ch in ast.iter_child_nodes(nd):
                    if isinstance(ch, (ast.FunctionDef, ast.Lambda)) and ch is not func.node:
                        continue
                    if isinstance(ch, (ast.For, ast.While)):
                        order.append(ch)
                    visit(ch)

            visit(func.node)
            self.loop_ordinal = {id(nd): i for i, nd in enumerate(order)}


class Exec:
    def __init__(self, world: World, path: Path):
        self.w = world
        self.p = path
        self.pure = 0  # >0: build formulas instead of forking
        self.depth = 0
        self.call_policy = {}  # dotted -> 'contract' | 'inline'
        self.loop_specs = {}  # dotted -> {ordinal: LoopSpec}
        self.events = []  # ghost trace of interesting calls

    # ------------------------------------------------------------------ name resolution
    def module_value(self, mi, name):
        """Value of a module-level name in repo module `mi`."""
        if name in mi.functions and "." not in name:
            return FuncV(mi, name, mi.functions[name])
        if name in mi.classes:
            return ClassV(mi, mi.classes[name])
        if name in mi.imports:
            imp = mi.imports[name]
            if imp[0] == "module":
                return ModuleRef(imp[1])
            _, mod, attr = imp
            return self.module_attr(ModuleRef(mod), attr)
        if name in mi.assigns:
            key = ("modconst", mi.name, name)
            if key not in self.p.ghost:
                fr = Frame(self, None, {})
                fr.mi = mi
                self.p.ghost[key] = self.eval(mi.assigns[name], fr)
            return self.p.ghost[key]
        if name in BUILTIN_EXC or name in BUILTIN_NAMES:
            return BuiltinV(name)
        if name in ("True", "False", "None"):
            return {"True": True, "False": False, "None": None}[name]
        raise Unsupported(f"unresolved name {name} in {mi.name}")

    def module_attr(self, mref: ModuleRef, attr):
        repo = self.w.repo
        if repo.is_repo_module(mref.name):
            sub = f"{mref.name}.{attr}"
            mi = repo.module(mref.name)
            if attr in mi.functions or attr in mi.classes or attr in mi.imports or attr in mi.assigns:
                return self.module_value(mi, attr)
            if repo.is_repo_module(sub):
                return ModuleRef(sub)
            raise Unsupported(f"module {mref.name} has no attribute {attr}")
        if mref.name.split(".")[0] == "robotools":
            raise Unsupported(f"unknown repo module {mref.name}")
        full = f"{mref.name}.{attr}"
        if full in ("collections.abc", "numpy.random", "os.path", "importlib.metadata"):
            return ModuleRef(full)
        if full == "numpy.nan":
            return float("nan")
        if full == "numpy.inf":
            return float("inf")
        if full == "math.inf":
            return float("inf")
        if full == "math.pi":
            import math

            return math.pi
        return BuiltinV(full)

    def lookup(self, name, fr: Frame):
        if name in fr.env:
            return fr.env[name]
        if name in self.w.spec_ns and getattr(fr, "spec_visible", False):
            return self.w.spec_ns[name]
        mi = getattr(fr, "mi", None) or (fr.func.mi if fr.func else None)
        if mi is not None:
            try:
                return self.module_value(mi, name)
            except Unsupported:
                if name in self.w.spec_ns:
                    return self.w.spec_ns[name]
                raise
        if name in self.w.spec_ns:
            return self.w.spec_ns[name]
        if name in BUILTIN_EXC or name in BUILTIN_NAMES:
            return BuiltinV(name)
        raise Unsupported(f"unresolved name {name}")

    # ------------------------------------------------------------------ class helpers
    def class_mro(self, cv: ClassV):
        """Linear MRO for single inheritance chains (all the repo uses): [(ClassV|str builtin name)]."""
        out = [cv]
        cur = cv
        for _ in range(10):
            if not cur.node.bases:
                break
            b = cur.node.bases[0]
            fr = Frame(self, None, {})
            fr.mi = cur.mi
            bv = self.eval(b, fr)
            if isinstance(bv, ClassV):
                out.append(bv)
                cur = bv
            elif isinstance(bv, BuiltinV):
                out.append(bv.name)
                break
            else:
                break
        return out

    def find_method(self, cv: ClassV, name):
        for c in self.class_mro(cv):
            if isinstance(c, ClassV):
                qn = f"{c.name}.{name}"
                if qn in c.mi.functions:
                    return FuncV(c.mi, qn, c.mi.functions[qn], c.name), c
        return None, None

    def class_of_obj(self, obj: Obj) -> ClassV:
        cv = obj.fields.get("__class__")
        if cv is None:
            raise Unsupported(f"object {obj} without class")
        return cv

    def exc_is_subclass(self, cls, target):
        """cls/target: names of exception classes (builtin or repo)."""
        if cls == target or target in ("BaseException",):
            return True
        seen = 0
        cur = cls
        while cur is not None and seen < 12:
            if cur == target:
                return True
            if cur in BUILTIN_EXC:
                cur = BUILTIN_EXC[cur]
            else:
                cv = self.w.repo_exc_classes.get(cur) if hasattr(self.w, "repo_exc_classes") else None
                if cv is None:
                    return False
                mro = self.class_mro(cv)
                nxt = None
                if len(mro) > 1:
                    nxt = mro[1].name if isinstance(mro[1], ClassV) else mro[1]
                cur = nxt
            seen += 1
        return False

    def is_exception_class(self, cv):
        if isinstance(cv, BuiltinV):
            return cv.name in BUILTIN_EXC
        if isinstance(cv, ClassV):
            mro = self.class_mro(cv)
            last = mro[-1]
            ok = isinstance(last, str) and last in BUILTIN_EXC
            if ok:
                if not hasattr(self.w, "repo_exc_classes"):
                    self.w.repo_exc_classes = {}
                for c in mro:
                    if isinstance(c, ClassV):
                        self.w.repo_exc_classes[c.name] = c
            return ok
        return False

    # ------------------------------------------------------------------ truthiness / branching
    def truth(self, v):
        """host bool or z3 BoolRef"""
        return ops.truthy(self, v)

    def test(self, v, tag=""):
        t = self.truth(v)
        if isinstance(t, bool):
            return t
        if self.pure:
            raise Unsupported("branching inside a pure (contract) expression")
        return self.p.branch(t, tag)

    # ------------------------------------------------------------------ expressions
    def eval(self, node, fr: Frame):
        m = getattr(self, "e_" + type(node).__name__, None)
        if m is None:
            raise Unsupported(f"expression {type(node).__name__}")
        return m(node, fr)

    def e_Constant(self, node, fr):
        return node.value

    def e_Name(self, node, fr):
        return self.lookup(node.id, fr)

    def e_Tuple(self, node, fr):
        return SeqV.of("tuple", self.eval_elts(node.elts, fr))

    def e_List(self, node, fr):
        return SeqV.of("list", self.eval_elts(node.elts, fr))

    def e_Set(self, node, fr):
        return SetV(ops.dedupe(self, self.eval_elts(node.elts, fr)))

    def eval_elts(self, elts, fr):
        out = []
        for e in elts:
            if isinstance(e, ast.Starred):
                out.extend(ops.iter_concrete(self, self.eval(e.value, fr)))
            else:
                out.append(self.eval(e, fr))
        return out

    def e_Dict(self, node, fr):
        items = []
        for k, v in zip(node.keys, node.values):
            if k is None:
                raise Unsupported("dict unpacking")
            items.append((self.eval(k, fr), self.eval(v, fr)))
        return MapV(items=items)

    def e_UnaryOp(self, node, fr):
        v = self.eval(node.operand, fr)
        if isinstance(node.op, ast.Not):
            t = self.truth(v)
            if isinstance(t, bool):
                return not t
            return Sym(z3.Not(t), "bool")
        if isinstance(node.op, ast.USub):
            return ops.binop(self, "-", 0, v)
        if isinstance(node.op, ast.UAdd):
            return v
        if isinstance(node.op, ast.Invert):
            return ops.invert(self, v)
        raise Unsupported("unary op")

    def e_BinOp(self, node, fr):
        a = self.eval(node.left, fr)
        b = self.eval(node.right, fr)
        return ops.binop(self, ops.OPNAME[type(node.op)], a, b)

    def e_BoolOp(self, node, fr):
        is_and = isinstance(node.op, ast.And)
        if self.pure:
            zs = []
            for vn in node.values:
                t = self.truth(self.eval(vn, fr))
                if isinstance(t, bool):
                    if is_and and not t:
                        return False
                    if (not is_and) and t:
                        return True
                    continue
                zs.append(t)
            if not zs:
                return is_and
            if len(zs) == 1:
                return Sym(zs[0], "bool")
            return Sym(z3.And(*zs) if is_and else z3.Or(*zs), "bool")
        val = None
        for i, vn in enumerate(node.values):
            val = self.eval(vn, fr)
            if i == len(node.values) - 1:
                return val
            t = self.test(val, "boolop")
            if is_and and not t:
                return val
            if (not is_and) and t:
                return val
        return val

    def e_IfExp(self, node, fr):
        c = self.eval(node.test, fr)
        t = self.truth(c)
        if isinstance(t, bool):
            return self.eval(node.body if t else node.orelse, fr)
        if self.pure:
            a = self.eval(node.body, fr)
            b = self.eval(node.orelse, fr)
            return ops.ite(self, t, a, b)
        return self.eval(node.body if self.p.branch(t, "ifexp") else node.orelse, fr)

    def e_Compare(self, node, fr):
        left = self.eval(node.left, fr)
        res = None
        for op, rn in zip(node.ops, node.comparators):
            right = self.eval(rn, fr)
            r = ops.compare(self, ops.CMPNAME[type(op)], left, right)
            if res is None:
                res = r
            else:
                res = ops.and_(self, res, r)
            if len(node.ops) > 1 and isinstance(res, bool) and res is False:
                return False
            left = right
        return res

    def e_Attribute(self, node, fr):
        v = self.eval(node.value, fr)
        return self.getattr(v, node.attr)

    def getattr(self, v, attr):
        if isinstance(v, ModuleRef):
            return self.module_attr(v, attr)
        if isinstance(v, Obj):
            if attr in v.fields:
                return v.fields[attr]
            cv = v.fields.get("__class__")
            if isinstance(cv, ClassV):
                fv, owner = self.find_method(cv, attr)
                if fv is not None:
                    decos = [d.id for d in fv.node.decorator_list if isinstance(d, ast.Name)]
                    if "property" in decos:
                        return self.call_func(fv, [v], {})
                    return BoundV(v, fv)
            from . import lib

            r = lib.obj_attr(self, v, attr)
            if r is not lib.NOATTR:
                return r
            if "__native__" in v.fields:
                # a symbolic object built by pyvc/models.py (not by running the real constructor): an attribute the model
                # does not know means the model is out of date with __init__, not that the program raises AttributeError
                raise Unsupported(f"attribute {attr!r} is not part of the symbolic {v.cls} model (model out of date with the constructor)")
            raise PyRaise(ExcV("AttributeError", (attr,)))
        if isinstance(v, ClassV):
            # enum members / class attributes
            from . import lib

            return lib.class_attr(self, v, attr)
        if isinstance(v, EnumV):
            if attr == "value":
                return v.value
            if attr == "name":
                return v.name
        from . import lib

        r = lib.value_attr(self, v, attr)
        if r is not lib.NOATTR:
            return r
        return LibMethod(v, attr)

    def e_Subscript(self, node, fr):
        v = self.eval(node.value, fr)
        idx = self.eval_index(node.slice, fr)
        return ops.getitem(self, v, idx)

    def eval_index(self, sl, fr):
        if isinstance(sl, ast.Slice):
            return ops.SliceV(
                None if sl.lower is None else self.eval(sl.lower, fr),
                None if sl.upper is None else self.eval(sl.upper, fr),
                None if sl.step is None else self.eval(sl.step, fr),
            )
        if isinstance(sl, ast.Tuple):
            return SeqV.of("tuple", [self.eval_index(e, fr) for e in sl.elts])
        return self.eval(sl, fr)

    def e_JoinedStr(self, node, fr):
        from . import lib

        parts = []
        for v in node.values:
            if isinstance(v, ast.Constant):
                parts.append(v.value)
            else:
                val = self.eval(v.value, fr)
                spec = ""
                if v.format_spec is not None:
                    sp = self.e_JoinedStr(v.format_spec, fr)
                    if not isinstance(sp, str):
                        raise Unsupported("symbolic format spec")
                    spec = sp
                parts.append(lib.format_value(self, val, spec, v.conversion))
        return lib.join_str_parts(self, parts)

    def e_Lambda(self, node, fr):
        return Closure(node, self, fr)

    def e_Call(self, node, fr):
        if isinstance(node.func, ast.Name) and node.func.id == "super" and not node.args and "super" not in fr.env:
            from . import lib

            return lib.SuperV(fr.env.get("self"), fr.func.cls if fr.func else None, fr.func.mi if fr.func else None)
        fv = self.eval(node.func, fr)
        args = []
        for a in node.args:
            if isinstance(a, ast.Starred):
                args.extend(ops.iter_concrete(self, self.eval(a.value, fr)))
            else:
                args.append(self.eval(a, fr))
        kwargs = {}
        for kw in node.keywords:
            if kw.arg is None:
                m = self.eval(kw.value, fr)
                if not (isinstance(m, MapV) and m.is_concrete()):
                    raise Unsupported("**kwargs of a non-concrete mapping")
                for k, v in m.items:
                    kwargs[k] = v
            else:
                kwargs[kw.arg] = self.eval(kw.value, fr)
        return self.call(fv, args, kwargs, node)

    def e_ListComp(self, node, fr):
        return ops.comprehension(self, node, fr, "list")

    def e_GeneratorExp(self, node, fr):
        return ops.comprehension(self, node, fr, "list")

    def e_SetComp(self, node, fr):
        r = ops.comprehension(self, node, fr, "list")
        return SetV(ops.dedupe(self, r.concrete_items()))

    def e_DictComp(self, node, fr):
        return ops.dict_comprehension(self, node, fr)

    def e_Starred(self, node, fr):
        raise Unsupported("starred expression outside call/display")

    # ------------------------------------------------------------------ calls
    def call(self, fv, args, kwargs, node=None):
        from . import lib

        if isinstance(fv, BuiltinV):
            return lib.call_builtin(self, fv.name, args, kwargs)
        if isinstance(fv, LibMethod):
            return lib.call_method(self, fv.recv, fv.name, args, kwargs)
        if isinstance(fv, HostFn):
            return fv.fn(self, *args, **kwargs)
        if isinstance(fv, BoundV):
            return self.call_func(fv.func, [fv.recv] + list(args), kwargs)
        if isinstance(fv, FuncV):
            return self.call_func(fv, args, kwargs)
        if isinstance(fv, Closure):
            return self.call_closure(fv, args, kwargs)
        if isinstance(fv, ClassV):
            return self.instantiate(fv, args, kwargs)
        raise Unsupported(f"call of {fv!r}")

    def call_closure(self, cl: Closure, args, kwargs):
        a = cl.node.args
        env = dict(cl.env.env)
        names = [x.arg for x in a.args]
        if len(args) > len(names) or kwargs:
            raise Unsupported("lambda call shape")
        defaults = a.defaults
        for i, n in enumerate(names):
            if i < len(args):
                env[n] = args[i]
            else:
                d = defaults[i - (len(names) - len(defaults))]
                env[n] = self.eval(d, cl.env)
        fr = Frame(self, cl.env.func, env)
        fr.mi = getattr(cl.env, "mi", None)
        fr.spec_visible = getattr(cl.env, "spec_visible", False)
        return self.eval(cl.node.body, fr)

    def instantiate(self, cv: ClassV, args, kwargs):
        from . import lib

        if self.is_exception_class(cv):
            return ExcV(cv.name, args)
        special = lib.instantiate_special(self, cv, args, kwargs)
        if special is not lib.NOATTR:
            return special
        obj = Obj(cv.name, {"__class__": cv})
        init, owner = self.find_method(cv, "__init__")
        if init is not None:
            self.call_func(init, [obj] + list(args), kwargs)
        return obj

    def bind_args(self, fv: FuncV, args, kwargs):
        a = fv.node.args
        env = {}
        fr0 = Frame(self, fv, {})
        pos = [x.arg for x in a.posonlyargs + a.args]
        if len(args) > len(pos) and a.vararg is None:
            raise PyRaise(ExcV("TypeError", ("too many positional arguments",)))
        for i, n in enumerate(pos):
            if i < len(args):
                env[n] = args[i]
        if a.vararg is not None:
            env[a.vararg.arg] = SeqV.of("tuple", list(args[len(pos):]))
        kwargs = dict(kwargs)
        for n in pos + [x.arg for x in a.kwonlyargs]:
            if n in kwargs:
                if n in env:
                    raise PyRaise(ExcV("TypeError", ("multiple values",)))
                env[n] = kwargs.pop(n)
        nd = len(a.defaults)
        for i, n in enumerate(pos):
            if n not in env:
                j = i - (len(pos) - nd)
                if j < 0:
                    raise PyRaise(ExcV("TypeError", (f"missing argument {n}",)))
                env[n] = self.eval(a.defaults[j], fr0)
        for x, d in zip(a.kwonlyargs, a.kw_defaults):
            if x.arg not in env:
                if d is None:
                    raise PyRaise(ExcV("TypeError", (f"missing keyword argument {x.arg}",)))
                env[x.arg] = self.eval(d, fr0)
        if kwargs:
            if a.kwarg is None:
                raise PyRaise(ExcV("TypeError", (f"unexpected keyword argument {sorted(kwargs)[0]}",)))
            env[a.kwarg.arg] = MapV(items=list(kwargs.items()))
        elif a.kwarg is not None:
            env[a.kwarg.arg] = MapV(items=[])
        return env

    def call_func(self, fv: FuncV, args, kwargs):
        from . import contract as C

        policy = self.call_policy.get(fv.dotted, "inline")
        if policy == "contract":
            ct = self.w.contracts.get(fv.dotted)
            if ct is None:
                raise Unsupported(f"no contract for {fv.dotted}")
            env = self.bind_args(fv, args, kwargs)
            return C.apply_contract(self, ct, fv, env)
        if callable(policy):
            env = self.bind_args(fv, args, kwargs)
            return policy(self, fv, env)
        return self.inline(fv, args, kwargs)

    def inline(self, fv: FuncV, args, kwargs):
        if self.depth > self.w.inline_depth_limit:
            raise Unsupported(f"inline depth exceeded at {fv.dotted} (recursion needs a contract)")
        env = self.bind_args(fv, args, kwargs)
        return self.run_body(fv, env)

    def run_body(self, fv: FuncV, env):
        for d in getattr(fv.node, "decorator_list", []):
            # a decorator may change what a call does (memoisation, wrapping): only `property` is modelled
            if not (isinstance(d, ast.Name) and d.id == "property"):
                raise Unsupported(f"decorator @{ast.unparse(d)} on {fv.dotted} is outside the modelled subset")
        fr = Frame(self, fv, env)
        self.depth += 1
        try:
            self.exec_block(fv.node.body, fr)
        except ReturnEx as r:
            return r.value
        finally:
            self.depth -= 1
        return None

    # ------------------------------------------------------------------ statements
    def exec_block(self, stmts, fr):
        for s in stmts:
            self.exec(s, fr)

    def exec(self, node, fr):
        m = getattr(self, "s_" + type(node).__name__, None)
        if m is None:
            raise Unsupported(f"statement {type(node).__name__}")
        return m(node, fr)

    def s_Expr(self, node, fr):
        if isinstance(node.value, ast.Constant):
            return  # docstring
        if isinstance(node.value, ast.Call):
            f = node.value.func
            # dropped: logger.* and warnings.warn
            if isinstance(f, ast.Attribute) and isinstance(f.value, ast.Name):
                if f.value.id == "logger" or (f.value.id == "warnings" and f.attr == "warn"):
                    self.w.dropped.add(f"{f.value.id}.{f.attr}")
                    return
        self.eval(node.value, fr)

    def s_Pass(self, node, fr):
        return

    def s_Return(self, node, fr):
        raise ReturnEx(None if node.value is None else self.eval(node.value, fr))

    def s_Break(self, node, fr):
        raise BreakEx()

    def s_Continue(self, node, fr):
        raise ContinueEx()

    def s_Assign(self, node, fr):
        v = self.eval(node.value, fr)
        for t in node.targets:
            self.assign(t, v, fr)

    def s_AnnAssign(self, node, fr):
        if node.value is not None:
            self.assign(node.target, self.eval(node.value, fr), fr)

    def s_AugAssign(self, node, fr):
        cur = self.eval(node.target, fr)
        rhs = self.eval(node.value, fr)
        opn = ops.OPNAME[type(node.op)]
        if isinstance(cur, SeqV) and cur.kind == "list" and opn == "+":
            ops.list_extend(self, cur, rhs)
            return
        self.assign(node.target, ops.binop(self, opn, cur, rhs), fr)

    def assign(self, target, v, fr):
        if isinstance(target, ast.Name):
            fr.env[target.id] = v
        elif isinstance(target, (ast.Tuple, ast.List)):
            items = ops.iter_concrete(self, v)
            if any(isinstance(e, ast.Starred) for e in target.elts):
                raise Unsupported("starred assignment target")
            if len(items) != len(target.elts):
                raise PyRaise(ExcV("ValueError", ("unpack",)))
            for t, it in zip(target.elts, items):
                self.assign(t, it, fr)
        elif isinstance(target, ast.Attribute):
            obj = self.eval(target.value, fr)
            if not isinstance(obj, Obj):
                raise Unsupported("attribute assignment on non-object")
            obj.fields[target.attr] = v
        elif isinstance(target, ast.Subscript):
            base = self.eval(target.value, fr)
            idx = self.eval_index(target.slice, fr)
            ops.setitem(self, base, idx, v)
        else:
            raise Unsupported(f"assignment target {type(target).__name__}")

    def s_If(self, node, fr):
        c = self.eval(node.test, fr)
        if self.test(c, f"if@{node.lineno}"):
            self.exec_block(node.body, fr)
        else:
            self.exec_block(node.orelse, fr)

    def s_Assert(self, node, fr):
        c = self.eval(node.test, fr)
        if not self.test(c, f"assert@{node.lineno}"):
            raise PyRaise(ExcV("AssertionError"))

    def s_Raise(self, node, fr):
        if node.exc is None:
            raise Unsupported("bare raise")
        v = self.make_exc(node.exc, fr)
        raise PyRaise(v)

    def make_exc(self, excnode, fr):
        # the message argument is dropped (never evaluated): it has no effect on behaviour
        target = excnode.func if isinstance(excnode, ast.Call) else excnode
        cv = self.eval(target, fr)
        if isinstance(cv, ExcV):
            return cv
        if self.is_exception_class(cv):
            name = cv.name
            return ExcV(name)
        raise Unsupported("raise of a non-exception value")

    def s_Try(self, node, fr):
        if node.finalbody:
            raise Unsupported("try/finally")
        try:
            self.exec_block(node.body, fr)
        except PyRaise as pr:
            for h in node.handlers:
                if h.type is None:
                    match = True
                else:
                    tv = self.eval(h.type, fr)
                    names = [x.name for x in (ops.iter_concrete(self, tv) if isinstance(tv, SeqV) else [tv])]
                    match = any(self.exc_is_subclass(pr.exc.cls, n) for n in names)
                if match:
                    if h.name:
                        fr.env[h.name] = pr.exc
                    self.exec_block(h.body, fr)
                    return
            raise
        else:
            self.exec_block(node.orelse, fr)

    def s_With(self, node, fr):
        from . import lib

        return lib.exec_with(self, node, fr)

    def s_Import(self, node, fr):
        for a in node.names:
            fr.env[a.asname or a.name.split(".")[0]] = ModuleRef(a.name if a.asname else a.name.split(".")[0])

    def s_ImportFrom(self, node, fr):
        for a in node.names:
            fr.env[a.asname or a.name] = self.module_attr(ModuleRef(node.module), a.name)

    def s_Delete(self, node, fr):
        raise Unsupported("del")

    def s_While(self, node, fr):
        raise Unsupported("while loop")

    # ------------------------------------------------------------------ for loops
    def s_For(self, node, fr):
        itv = self.eval(node.iter, fr)
        view = ops.iter_view(self, itv)  # (n, item_at) with n int or z3 term
        n, item_at = view
        if isinstance(n, int):
            for i in range(n):
                self.assign(node.target, item_at(i), fr)
                try:
                    self.exec_block(node.body, fr)
                except BreakEx:
                    return
                except ContinueEx:
                    continue
            else:
                self.exec_block(node.orelse, fr)
            return
        # symbolic trip count: cut the loop with its invariant
        spec = None
        if fr.func is not None:
            spec = self.loop_specs.get(fr.func.dotted, {}).get(fr.loop_ordinal.get(id(node)))
        if spec is None:
            where = fr.func.dotted if fr.func else "?"
            raise Unsupported(f"loop at {where}:{node.lineno} has a symbolic trip count and no invariant")
        from . import contract as C

        C.cut_loop(self, node, fr, spec, n, item_at)
