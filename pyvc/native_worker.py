"""Runs under the repo's interpreter (/venv/bin/python): replays counterexamples on the REAL code.

input  (JSON on stdin): {"setup": "<python statements>", "call": "<python expression>", "args": {name: tagged},
                          "clauses": [{"id":..., "text":..., "when": "return"|"raise"|"any"}], "raises": [[Exc, cond], ...]}
output (JSON on stdout): {"outcome": "return"|"raise:<E>", "result": repr, "failed": [clause ids], "detail": ...}
"""
import json
import sys
import traceback
import warnings


def untag(t):
    import numpy as np

    k = t["t"]
    if k == "int":
        return int(t["v"])
    if k == "float":
        from fractions import Fraction

        return float(Fraction(t["v"]))
    if k == "special":
        return float(t["v"])
    if k in ("bool", "str"):
        return t["v"]
    if k == "none":
        return None
    if k == "npint":
        return np.int64(t["v"])
    if k == "list":
        return [untag(x) for x in t["v"]]
    if k == "tuple":
        return tuple(untag(x) for x in t["v"])
    if k == "array":
        return np.array([untag(x) for x in t["v"]])
    if k == "array2":
        return np.array([[untag(x) for x in row] for row in t["v"]])
    if k == "dict":
        return {untag(a): untag(b) for a, b in t["v"]}
    if k == "set":
        return set(untag(x) for x in t["v"])
    if k == "tip":
        from robotools.evotools.types import Tip

        return Tip(t["v"])
    if k == "expr":  # python expression building a real object (e.g. Labware(...)); evaluated with robotools in scope
        import robotools

        ns = {"robotools": robotools, "np": np, "numpy": np, "_mk_wl": _mk_wl}
        ns.update({n: getattr(robotools, n) for n in robotools.__all__})
        ns.update({a: untag(b) for a, b in t.get("env", {}).items()})
        return eval(t["v"], ns)
    if k == "opaque":
        return object()
    raise ValueError(f"unknown tag {k}")


def _mk_wl(wl, records):
    wl.extend(records)
    return wl


def main():
    warnings.simplefilter("ignore")
    import logging

    logging.disable(logging.CRITICAL)
    if "--batch" in sys.argv:
        import io

        jobs = json.load(sys.stdin)
        outs = []
        for job in jobs:
            buf = io.StringIO()
            try:
                run_job(job, buf)
                outs.append(json.loads(buf.getvalue()))
            except BaseException as e:  # noqa
                outs.append({"error": "worker: " + repr(e)[:300]})
        json.dump(outs, sys.stdout)
        return
    run_job(json.load(sys.stdin), sys.stdout)


def run_job(job, stdout):
    import numpy as np
    import robotools
    from pyvc import native_spec as NSP

    ns = {"robotools": robotools, "np": np, "numpy": np}
    ns.update({n: getattr(robotools, n) for n in robotools.__all__})
    for line in job.get("imports", []):
        exec(line, ns)
    args = {k: untag(v) for k, v in job["args"].items()}
    ns.update(args)
    if job.get("setup"):
        exec(job["setup"], ns)
    out = {"failed": [], "detail": {}}
    import copy

    olds = {}
    for k, v in args.items():
        try:
            olds[k] = copy.deepcopy(v)
        except Exception:  # noqa
            olds[k] = v
    try:
        result = eval(job["call"], ns)
        outcome = "return"
    except BaseException as e:  # noqa
        if isinstance(e, (NameError, SyntaxError, ImportError)) and e.__traceback__.tb_next is None:
            json.dump({"error": "replay job broken: " + repr(e)}, stdout)
            return
        result = None
        outcome = "raise:" + type(e).__name__
        out["exc_mro"] = [c.__name__ for c in type(e).__mro__]
        out["exc_msg"] = str(e)[:300]
    out["outcome"] = outcome
    out["result"] = repr(result)[:500]
    env = dict(NSP.NS)
    env.update({k: NSP.wrap(v) for k, v in args.items()})
    for k, v in ns.items():
        if k.startswith("old_") or k.startswith("obs_"):
            env[k] = NSP.wrap(v) if not hasattr(v, "__dict__") else v
    env["result"] = NSP.wrap(result)
    if job.get("observe"):
        obs_ns = dict(ns)
        obs_ns["result"] = result
        for name, expr in job["observe"].items():
            try:
                env[name] = NSP.wrap(eval(expr, obs_ns))
            except Exception as e:  # noqa
                env[name] = None
                out["detail"]["observe:" + name] = repr(e)
    for cl in job.get("clauses", []):
        when = cl.get("when", "return")
        if when == "return" and outcome != "return":
            continue
        if when == "raise" and outcome == "return":
            continue
        try:
            ok = bool(eval(cl["text"], env))
        except Exception as e:  # noqa
            ok = None
            out["detail"][cl["id"]] = "clause evaluation error: " + repr(e)
        if ok is False:
            out["failed"].append(cl["id"])
    # raises table: raise E => cond ; return => no cond   (conditions speak about the entry state)
    rs = job.get("raises")
    post_env = env
    env = dict(env)
    for k, v in olds.items():
        env[k] = NSP.wrap(v) if not hasattr(v, "__dict__") else v
        post_env["old_" + k] = env[k]
    if rs is not None:
        if outcome == "return":
            for exc, cond in rs:
                try:
                    if bool(eval(cond, env)):
                        out["failed"].append(f"no-raise[{exc}]")
                except Exception as e:  # noqa
                    out["detail"][f"no-raise[{exc}]"] = "clause evaluation error: " + repr(e)
        else:
            ename = outcome.split(":", 1)[1]
            mro = out.get("exc_mro", [ename])
            conds = [c for e, c in rs if e in mro]
            if not conds:
                out["failed"].append(f"unexpected-exception[{ename}]")
            else:
                try:
                    if not any(bool(eval(c, env)) for c in conds):
                        out["failed"].append(f"raises[{ename}]")
                except Exception as e:  # noqa
                    out["detail"][f"raises[{ename}]"] = "clause evaluation error: " + repr(e)
    json.dump(out, stdout)


if __name__ == "__main__":
    main()
