"""native helper for C17 replays: save into a fresh temporary directory, with a longer pre-existing file"""
import os
import tempfile
from pathlib import Path


def _save_and_read(wl, filepath):
    d = tempfile.mkdtemp(prefix="pyvc_c17_")
    name = os.path.basename(str(filepath)) or "x.gwl"
    target = os.path.join(d, name)
    try:
        with open(target, "wb") as fh:
            fh.write(b"OLD CONTENT THAT IS LONGER THAN ANYTHING NEW\r\n" * 50)
        wl.save(Path(target) if isinstance(filepath, Path) else target)
        with open(target, "rb") as fh:
            data = fh.read()
        return {"ok": True, "bytes": data}
    finally:
        for f in os.listdir(d):
            os.unlink(os.path.join(d, f))
        os.rmdir(d)


def _labware_op(lw, name, wells, volumes, label):
    """run add/remove on the real labware and evaluate the C02/C04/C11 clauses against an independent recomputation"""
    import numpy as np

    before = lw.volumes.copy()
    hist_before = [(l, h.copy()) for l, h in lw.history]
    w = np.array(wells).flatten("F")
    v = np.array(volumes, dtype=float).flatten("F")
    if len(v) == 1:
        v = np.repeat(v, len(w))
    getattr(lw, name)(wells, volumes, label)  # may raise: then the caller sees the exception
    expected = before.copy()
    sign = 1.0 if name == "add" else -1.0
    for wi, vi in zip(w, v):
        expected[lw.indices[str(wi)]] += sign * vi
    after = lw.volumes
    res = {"bookkeeping": bool(np.allclose(after, expected, rtol=1e-9, atol=1e-9))}
    lim_ok = True
    for wi in w:
        x = after[lw.indices[str(wi)]]
        lim_ok = lim_ok and (x <= lw.max_volume + 1e-12 if name == "add" else x >= lw.min_volume - 1e-12) and x >= -1e-12
    res["limit"] = bool(lim_ok)
    hist = lw.history
    res["history"] = (len(hist) == len(hist_before) + 1 and hist[-1][0] == label and bool(np.array_equal(hist[-1][1], after))
                      and all(a[0] == b[0] and np.array_equal(a[1], b[1]) for a, b in zip(hist, hist_before)))
    res["snapshot"] = lw._history[-1] is not lw._volumes
    return res
