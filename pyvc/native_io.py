"""native helper for C17 replays: save into a fresh temporary directory, with a longer pre-existing file"""
import os
import tempfile
from pathlib import Path


def _save_and_read(wl, filepath):
    d = tempfile.mkdtemp(prefix="pyvc_c17_")
    name = os.path.basename(str(filepath)) or "x.gwl"
    target = os.path.join(d, name)
    try:
        with open(target, "wb") as fh:
            fh.write(b"OLD CONTENT THAT IS LONGER THAN ANYTHING NEW\r\n" * 50)
        wl.save(Path(target) if isinstance(filepath, Path) else target)
        with open(target, "rb") as fh:
            data = fh.read()
        return {"ok": True, "bytes": data}
    finally:
        for f in os.listdir(d):
            os.unlink(os.path.join(d, f))
        os.rmdir(d)


def _labware_op(lw, name, wells, volumes, label):
    """run add/remove on the real labware and evaluate the C02/C04/C11 clauses against an independent recomputation"""
    import numpy as np

    before = lw.volumes.copy()
    hist_before = [(l, h.copy()) for l, h in lw.history]
    w = np.array(wells).flatten("F")
    v = np.array(volumes, dtype=float).flatten("F")
    if len(v) == 1:
        v = np.repeat(v, len(w))
    getattr(lw, name)(wells, volumes, label)  # may raise: then the caller sees the exception
    expected = before.copy()
    sign = 1.0 if name == "add" else -1.0
    for wi, vi in zip(w, v):
        expected[lw.indices[str(wi)]] += sign * vi
    after = lw.volumes
    res = {"bookkeeping": bool(np.allclose(after, expected, rtol=1e-9, atol=1e-9))}
    lim_ok = True
    for wi in w:
        x = after[lw.indices[str(wi)]]
        lim_ok = lim_ok and (x <= lw.max_volume + 1e-12 if name == "add" else x >= lw.min_volume - 1e-12) and x >= -1e-12
    res["limit"] = bool(lim_ok)
    hist = lw.history
    res["history"] = (len(hist) == len(hist_before) + 1 and hist[-1][0] == label and bool(np.array_equal(hist[-1][1], after))
                      and all(a[0] == b[0] and np.array_equal(a[1], b[1]) for a, b in zip(hist, hist_before)))
    res["snapshot"] = lw._history[-1] is not lw._volumes
    return res


def _make_labware(name, rows, columns, min_volume, max_volume, initial_volumes, virtual_rows):
    import numpy as np
    from robotools import Labware

    lw = Labware(name, rows, columns, min_volume=min_volume, max_volume=max_volume, initial_volumes=initial_volumes, virtual_rows=virtual_rows)
    nr = virtual_rows if virtual_rows is not None else rows
    letters = "ABCDEFGHIJKLMNOPQRSTUVWXYZ"
    ids = [[f"{letters[r]}{c + 1:02d}" for c in range(columns)] for r in range(nr)]
    if initial_volumes is None:
        iv = np.zeros((rows, columns))
    elif np.ndim(initial_volumes) == 0:
        iv = np.full((rows, columns), float(initial_volumes))
    else:
        iv = np.array(initial_volumes, dtype=float).flatten().reshape((rows, columns))
    res = {}
    res["grid-ids"] = len(lw.row_ids) == nr and list(lw.column_ids) == list(range(1, columns + 1))
    res["wells-array"] = lw.wells.shape == (nr, columns) and lw.wells.tolist() == ids
    res["volumes-layout"] = lw.volumes.shape == (rows, columns) and bool(np.array_equal(lw.volumes, iv))
    res["index-map"] = all(lw.indices[ids[r][c]] == ((0 if virtual_rows is not None else r), c) for r in range(nr) for c in range(columns))
    res["index-map-nothing-else"] = set(lw.indices) == {w for row in ids for w in row}
    res["positions"] = all(lw._positions[ids[r][c]] == 1 + c * nr + r for r in range(nr) for c in range(columns))
    res["limits"] = 0 <= lw.min_volume < lw.max_volume and bool(np.all((lw.volumes >= 0) & (lw.volumes <= lw.max_volume) & np.isfinite(lw.volumes)))
    res["history"] = len(lw.history) == 1 and lw.history[0][0] == "initial" and bool(np.array_equal(lw.history[0][1], lw.volumes)) and lw._history[0] is not lw._volumes
    res["own-volume-array"] = not (isinstance(initial_volumes, np.ndarray) and np.shares_memory(lw._volumes, initial_volumes))
    res["attributes"] = lw.name == name and lw.min_volume == min_volume and lw.max_volume == max_volume and lw.virtual_rows == virtual_rows
    return res


def _make_trough(name, virtual_rows, columns, min_volume, max_volume, initial_volumes=0, column_names=None):
    """builds a real Trough and evaluates the clauses of the Trough.__init__ contract on it"""
    import numpy as np
    from robotools import Trough

    lw = Trough(name, virtual_rows, columns, min_volume=min_volume, max_volume=max_volume, initial_volumes=initial_volumes, column_names=column_names)
    letters = "ABCDEFGHIJKLMNOPQRSTUVWXYZ"
    nr = virtual_rows
    ids = [[f"{letters[r]}{c + 1:02d}" for c in range(columns)] for r in range(nr)]
    vols = [float(initial_volumes)] * columns if np.ndim(initial_volumes) == 0 else [float(v) for v in initial_volumes]
    names = [None] * columns if column_names is None else ([column_names] if isinstance(column_names, str) else list(column_names))
    res = {}
    res["grid-ids"] = len(lw.row_ids) == nr and list(lw.column_ids) == list(range(1, columns + 1))
    res["wells-array"] = lw.wells.shape == (nr, columns) and lw.wells.tolist() == ids
    res["volumes-per-column"] = lw.volumes.shape == (1, columns) and lw.volumes[0].tolist() == vols
    res["index-map"] = all(lw.indices[ids[r][c]] == (0, c) for r in range(nr) for c in range(columns))
    res["index-map-nothing-else"] = set(lw.indices) == {w for row in ids for w in row}
    res["positions"] = all(lw._positions[ids[r][c]] == 1 + c * nr + r for r in range(nr) for c in range(columns))
    res["limits"] = 0 <= lw.min_volume < lw.max_volume and bool(np.all((lw.volumes >= 0) & (lw.volumes <= lw.max_volume) & np.isfinite(lw.volumes)))
    res["history"] = len(lw.history) == 1 and lw.history[0][0] == "initial" and bool(np.array_equal(lw.history[0][1], lw.volumes)) and lw._history[0] is not lw._volumes
    res["attributes"] = lw.name == name and lw.min_volume == min_volume and lw.max_volume == max_volume and lw.virtual_rows == virtual_rows
    want = {}
    for c, (given, v) in enumerate(zip(names, vols)):
        if v != 0:
            key = given if given is not None else (f"{name}.column_{c + 1:02d}" if columns > 1 else name)
            want.setdefault(key, np.zeros((1, columns)))[0, c] = 1
    comp = lw.composition
    res["one-100%-component-per-filled-column"] = set(comp) == set(want) and all(np.array_equal(comp[k], want[k]) for k in want)
    return res


def _make_plan(xmin, xmax, R, C, stock, mode, vmax, min_transfer):
    """builds a real DilutionPlan and evaluates the clauses of the planning contract on it (exact Fraction arithmetic for
    the implied concentrations; compared leniently because float rounding is outside the model)"""
    import math
    from fractions import Fraction as Fr

    import numpy as np
    from robotools import DilutionPlan

    plan = DilutionPlan(xmin=xmin, xmax=xmax, R=R, C=C, stock=stock, mode=mode, vmax=vmax, min_transfer=min_transfer)
    vm = [float(v) for v in np.atleast_1d(vmax)]
    if len(vm) == 1:
        vm = vm * C

    def close(a, b):
        a, b = float(a), float(b)
        return math.isfinite(a) and math.isfinite(b) and abs(a - b) <= 1e-9 + 1e-9 * max(abs(a), abs(b))

    res = {}
    ins = list(plan.instructions)
    shape_ok = len(ins) == C and [i[0] for i in ins] == list(range(C)) and all(len(np.atleast_1d(i[3])) == R for i in ins)
    res["whole-bounded-volumes"] = shape_ok and all(
        float(v) == round(float(v)) and min_transfer <= float(v) <= vm[c] for c, _, _, vs in ins for v in np.atleast_1d(vs))
    steps, src_ok = {}, shape_ok
    for c, d, src, _ in ins:
        if isinstance(src, str):
            src_ok = src_ok and src == "stock" and d == 0
        else:
            src_ok = src_ok and isinstance(src, (int, np.integer)) and 0 <= src < c and src in steps and d == steps[src] + 1
        steps[c] = d
    res["prepared-from-stock-or-earlier-column"] = bool(src_ok)
    if src_ok:
        conc = {}
        for c, d, src, vs in ins:
            vs = [Fr(float(v)) for v in np.atleast_1d(vs)]
            conc[c] = [v / Fr(vm[c]) * Fr(float(stock)) if isinstance(src, str) else v * conc[src][r] / Fr(vm[c]) for r, v in enumerate(vs)]
        flat = [conc[c][r] for c in range(C) for r in range(R)]
        x = np.asarray(plan.x)
        res["reported-concentrations"] = (x.shape == (R, C) and all(close(x[r, c], conc[c][r]) for c in range(C) for r in range(R))
                                          and close(plan.xmin, min(flat)) and close(plan.xmax, max(flat)))
        vstock = sum(float(v) for _, d, src, vs in ins if isinstance(src, str) for v in np.atleast_1d(vs))
        res["reported-totals"] = (plan.R == R and plan.C == C and plan.N == R * C and [float(v) for v in plan.vmax] == vm and close(plan.v_stock, vstock)
                                  and close(plan.v_diluent, R * sum(vm) - vstock) and plan.max_steps == max(steps.values()))
    else:
        res["reported-concentrations"] = False
        res["reported-totals"] = False
    return res


def _make_randomizer(original_shape, random_seed, mode):
    """builds a real WellRandomizer (twice: same seed must give the same assignment) and evaluates the constructor contract"""
    from robotools import WellRandomizer

    R, C = original_shape
    letters = "ABCDEFGHIJKLMNOPQRSTUVWXYZ"
    grid = [f"{letters[r]}{c + 1:02d}" for r in range(R) for c in range(C)]
    a = WellRandomizer(original_shape, random_seed, mode=mode)
    b = WellRandomizer(original_shape, random_seed, mode=mode)
    lk, rv = dict(a.lookup), dict(a.lookup_reverse)
    ok = sorted(lk) == sorted(grid) and sorted(lk.values()) == sorted(grid) and len(rv) == len(grid) and all(rv.get(lk[w]) == w for w in grid)
    if mode == "row":
        ok = ok and all(lk[w][0] == w[0] for w in grid)
    if mode == "column":
        ok = ok and all(lk[w][1:] == w[1:] for w in grid)
    ok = ok and dict(b.lookup) == lk and dict(b.lookup_reverse) == rv
    return {"well-formed": bool(ok), "attributes": tuple(a.original_shape) == tuple(original_shape) and a.random_seed == random_seed}
