"""Static (syntactic) obligations over the real source: relational equality of the two transfer bodies (C16),
class-hierarchy facts, and frame clauses (which functions may write which labware state)."""
from __future__ import annotations

import ast
import copy


def _strip(node):
    """normalise: drop docstrings and annotations"""
    node = copy.deepcopy(node)
    for n in ast.walk(node):
        if isinstance(n, (ast.FunctionDef, ast.ClassDef, ast.Module)):
            if n.body and isinstance(n.body[0], ast.Expr) and isinstance(n.body[0].value, ast.Constant) and isinstance(n.body[0].value.value, str):
                n.body = n.body[1:] or [ast.Pass()]
        if isinstance(n, ast.FunctionDef):
            n.returns = None
            for a in n.args.args + n.args.kwonlyargs + n.args.posonlyargs:
                a.annotation = None
            if n.args.vararg:
                n.args.vararg.annotation = None
            if n.args.kwarg:
                n.args.kwarg.annotation = None
    return node


def _dump(n):
    return ast.dump(n, annotate_fields=True, include_attributes=False)


class _Unobservable(ast.NodeTransformer):
    """drop statements without an effect the property can observe (logging calls, `pass`, bare string literals) and blank the
    message text of `raise X("...")` (the property compares the kind of error, not its wording)"""

    def visit_Expr(self, n):
        v = n.value
        if isinstance(v, ast.Constant):
            return None
        if isinstance(v, ast.Call) and isinstance(v.func, ast.Attribute) and isinstance(v.func.value, ast.Name) \
                and v.func.value.id in ("logger", "_log", "log", "logging") and v.func.attr in ("debug", "info", "warning", "error", "exception", "critical", "log"):
            return None
        return self.generic_visit(n)

    def visit_Pass(self, n):
        return None

    def visit_Raise(self, n):
        if isinstance(n.exc, ast.Call):
            n.exc.args = [ast.Constant("<message>") if isinstance(a, (ast.Constant, ast.JoinedStr)) else a for a in n.exc.args]
        return n

    def generic_visit(self, node):
        node = super().generic_visit(node)
        for f in ("body", "orelse", "finalbody"):
            if isinstance(getattr(node, f, None), list) and f == "body" and not node.body and not isinstance(node, ast.Module):
                node.body = [ast.Pass()]
        return node


def _alpha(fn):
    """canonical names for the local variables of a function (in order of first binding), so that renaming a local in one
    of two sibling bodies is not reported as a difference"""
    params = {a.arg for a in fn.args.args + fn.args.kwonlyargs + fn.args.posonlyargs}
    if fn.args.vararg:
        params.add(fn.args.vararg.arg)
    if fn.args.kwarg:
        params.add(fn.args.kwarg.arg)
    order = []

    class Binders(ast.NodeVisitor):
        def visit_Name(self, n):
            if isinstance(n.ctx, ast.Store) and n.id not in params and n.id not in order:
                order.append(n.id)

        def visit_FunctionDef(self, n):
            if n is fn:
                self.generic_visit(n)

        def visit_Lambda(self, n):
            self.generic_visit(n)

    Binders().visit(fn)
    ren = {name: f"local{i}" for i, name in enumerate(order)}
    for n in ast.walk(fn):
        if isinstance(n, ast.Name) and n.id in ren:
            n.id = ren[n.id]
    return fn


def transfer_relational(world):
    """EvoWorklist.transfer and FluentWorklist.transfer are the same program up to (a) the body of the deprecated
    `wash_scheme is None` branch and (b) assert vs raise ValueError for incompatible lengths."""
    out = []
    emi, _, evo = world.repo.find_function("robotools.evotools.worklist.EvoWorklist.transfer")
    fmi, _, flu = world.repo.find_function("robotools.fluenttools.worklist.FluentWorklist.transfer")
    evo, flu = _alpha(_Unobservable().visit(_strip(evo))), _alpha(_Unobservable().visit(_strip(flu)))
    out.append(("C16/transfer/same-signature", _dump(evo.args) == _dump(flu.args), "parameter lists differ"))
    be, bf = _align([s for s in evo.body if not isinstance(s, ast.Pass)], [s for s in flu.body if not isinstance(s, ast.Pass)])
    i = j = 0
    k = 0
    while i < len(be) or j < len(bf):
        k += 1
        a, b = be[i], bf[j]
        if a is None or b is None:
            x = a if a is not None else b
            out.append((f"C16/transfer/stmt[{k}]", False, f"statement only in {'EvoWorklist' if b is None else 'FluentWorklist'}.transfer (line {x.lineno}): {ast.unparse(x)[:160]!r}"))
            i += 1
            j += 1
            continue
        if _dump(a) == _dump(b):
            out.append((f"C16/transfer/stmt[{k}]", True, ""))
            i += 1
            j += 1
            continue
        # (a) deprecated branch: both guarded by `wash_scheme is None`, bodies may differ (excluded by the property)
        if isinstance(a, ast.If) and isinstance(b, ast.If) and _dump(a.test) == _dump(b.test) and _dump(a.test) == _dump(ast.parse("wash_scheme is None", mode="eval").body) \
                and not a.orelse and not b.orelse:
            out.append((f"C16/transfer/stmt[{k}]", True, "deprecated wash_scheme=None branch (excluded by the property): same guard"))
            i += 1
            j += 1
            continue
        # (b) assert C  vs  if not-C: raise ValueError(...)
        if isinstance(a, ast.Assert) and isinstance(b, ast.If) and len(b.body) == 1 and isinstance(b.body[0], ast.Raise) and not b.orelse:
            ok = _negates(a.test, b.test)
            out.append((f"C16/transfer/stmt[{k}]", ok, "assert vs raise on incompatible lengths: conditions must be complementary"))
            i += 1
            j += 1
            continue
        out.append((f"C16/transfer/stmt[{k}]", False, f"statements differ: evo line {a.lineno}: {ast.unparse(a)[:120]!r}  vs  fluent line {b.lineno}: {ast.unparse(b)[:120]!r}"))
        i += 1
        j += 1
    # the names the two bodies use resolve to the same definitions
    for name in ("optimize_partition_by", "partition_by_column", "partition_volume"):
        ie, iflu = emi.imports.get(name), fmi.imports.get(name)
        out.append((f"C16/transfer/import[{name}]", ie is not None and ie == iflu, f"{ie} vs {iflu}"))
    ne, nf = emi.imports.get("np"), fmi.imports.get("np")
    out.append(("C16/transfer/import[np]", ne == nf == ("module", "numpy"), f"{ne} vs {nf}"))
    return out


def _align(xs, ys):
    """pad the two statement lists with None so that equal statements face each other (a one-sided insertion is then one
    difference, not a cascade)"""
    import difflib

    dx, dy = [_dump(x) for x in xs], [_dump(y) for y in ys]
    ax, ay = [], []
    for tag, i1, i2, j1, j2 in difflib.SequenceMatcher(a=dx, b=dy, autojunk=False).get_opcodes():
        if tag == "equal":
            ax += xs[i1:i2]
            ay += ys[j1:j2]
            continue
        n = max(i2 - i1, j2 - j1)
        ax += xs[i1:i2] + [None] * (n - (i2 - i1))
        ay += ys[j1:j2] + [None] * (n - (j2 - j1))
    return ax, ay


def _negates(c1, c2):
    """c1 == (x == k), c2 == (x != k)  (same operands)"""
    if isinstance(c1, ast.Compare) and isinstance(c2, ast.Compare) and len(c1.ops) == 1 and len(c2.ops) == 1:
        same = _dump(c1.left) == _dump(c2.left) and _dump(c1.comparators[0]) == _dump(c2.comparators[0])
        pair = (type(c1.ops[0]), type(c2.ops[0]))
        return same and pair in ((ast.Eq, ast.NotEq), (ast.NotEq, ast.Eq), (ast.Is, ast.IsNot), (ast.IsNot, ast.Is))
    return False


def hierarchy(world):
    """Neither device class overrides a shared method; the device enters only through _get_well_position."""
    out = []
    evo = world.repo.module("robotools.evotools.worklist")
    flu = world.repo.module("robotools.fluenttools.worklist")
    base = world.repo.module("robotools.worklists.base")
    base_methods = {q.split(".", 1)[1] for q in base.functions if q.startswith("BaseWorklist.")}
    allowed = {"_get_well_position", "transfer", "__init__"}
    for mod, cls, extra in ((evo, "EvoWorklist", {"evo_aspirate", "evo_dispense", "evo_wash"}), (flu, "FluentWorklist", set())):
        own = {q.split(".", 1)[1] for q in mod.functions if q.startswith(cls + ".")}
        over = (own & base_methods) - allowed
        out.append((f"C16/{cls}/overrides-only-device-methods", not over, f"overrides shared methods: {sorted(over)}"))
        out.append((f"C16/{cls}/no-unexpected-methods", not (own - base_methods - extra - allowed), f"unexpected methods: {sorted(own - base_methods - extra - allowed)}"))
        c = mod.classes.get(cls)
        okb = c is not None and len(c.bases) == 1 and isinstance(c.bases[0], ast.Name) and c.bases[0].id == "BaseWorklist" and mod.imports.get("BaseWorklist") == ("from", "robotools.worklists.base", "BaseWorklist")
        out.append((f"C16/{cls}/derives-from-BaseWorklist", okb, "base class"))
    # FluentWorklist.__init__ is a pure pass-through
    if "FluentWorklist.__init__" in flu.functions:
        f = _strip(flu.functions["FluentWorklist.__init__"])
        want = "super().__init__(filepath, max_volume, auto_split, diti_mode)"
        ok = len(f.body) == 1 and isinstance(f.body[0], ast.Expr) and ast.unparse(f.body[0]) == want and [a.arg for a in f.args.args] == ["self", "filepath", "max_volume", "auto_split", "diti_mode"]
        b = base.functions["BaseWorklist.__init__"]
        same_defaults = [ast.unparse(d) for d in f.args.defaults] == [ast.unparse(d) for d in b.args.defaults]
        out.append(("C16/FluentWorklist/__init__-passes-through", ok and same_defaults, "constructor must forward its four arguments unchanged with the same defaults"))
    # _get_well_position of each device delegates to its utils function
    for mod, cls, target in ((evo, "EvoWorklist", "robotools.evotools.utils"), (flu, "FluentWorklist", "robotools.fluenttools.utils")):
        f = _strip(mod.functions[f"{cls}._get_well_position"])
        ok = len(f.body) == 1 and ast.unparse(f.body[0]) == "return get_well_position(labware, well)" and mod.imports.get("get_well_position") == ("from", target, "get_well_position")
        out.append((f"C16/{cls}/_get_well_position-delegates", ok, f"must be `return get_well_position(labware, well)` from {target}"))
    # uses of self._get_well_position in the shared code: only the position argument of A/D records and the destination range of R
    uses = []
    for qn, fn in base.functions.items():
        for n in ast.walk(fn):
            if isinstance(n, ast.Attribute) and n.attr == "_get_well_position" and isinstance(n.ctx, ast.Load):
                uses.append(qn)
    out.append(("C16/base/device-numbering-used-only-in-aspirate-dispense-distribute",
                sorted(set(uses)) == ["BaseWorklist.aspirate", "BaseWorklist.dispense", "BaseWorklist.distribute"] and len(uses) == 3, f"uses: {uses}"))
    return out


LABWARE_STATE = {"_volumes", "_history", "_labels", "_composition", "_wells", "_indices", "_positions", "min_volume", "max_volume", "row_ids", "column_ids", "virtual_rows", "name"}
LABWARE_API = {"add", "remove", "condense_log", "get_well_composition", "log"}


def frames(world):
    """Frame clauses: outside robotools/liquidhandling/labware.py no function assigns labware state; worklist code reaches the
    tracked volumes only through Labware.add / remove (and condense_log for the history)."""
    out = []
    mods = ["robotools.worklists.base", "robotools.evotools.worklist", "robotools.fluenttools.worklist", "robotools.worklists.utils",
            "robotools.utils", "robotools.evotools.commands", "robotools.evotools.utils", "robotools.fluenttools.utils", "robotools.transform",
            "robotools.liquidhandling.composition"]
    for m in mods:
        mi = world.repo.module(m)
        for qn, fn in mi.functions.items():
            bad = []
            for n in ast.walk(fn):
                tgts = []
                if isinstance(n, ast.Assign):
                    tgts = n.targets
                elif isinstance(n, (ast.AugAssign, ast.AnnAssign)):
                    tgts = [n.target]
                elif isinstance(n, ast.Delete):
                    tgts = n.targets
                for t in tgts:
                    for sub in ast.walk(t):
                        if isinstance(sub, ast.Attribute) and sub.attr in LABWARE_STATE and not (isinstance(sub.value, ast.Name) and sub.value.id == "self" and m != "robotools.liquidhandling.labware" and sub.attr in ("max_volume", "name")):
                            bad.append(f"line {n.lineno}: writes .{sub.attr}")
                # in-place mutation through a method / numpy call on labware state
                if isinstance(n, ast.Call) and isinstance(n.func, ast.Attribute) and isinstance(n.func.value, ast.Attribute) and n.func.value.attr in ("_volumes", "_history", "_labels", "_composition") \
                        and n.func.attr in ("append", "pop", "clear", "extend", "fill", "put", "itemset", "update", "__setitem__", "sort", "resize"):
                    bad.append(f"line {n.lineno}: mutates .{n.func.value.attr}.{n.func.attr}()")
                if isinstance(n, ast.Attribute) and n.attr in ("_volumes", "_history", "_labels") and isinstance(n.ctx, ast.Load) and m != "robotools.liquidhandling.labware":
                    bad.append(f"line {n.lineno}: reads private .{n.attr} (may alias the tracked state)")
            out.append((f"frame/{m}.{qn}/does-not-write-labware-state", not bad, "; ".join(bad)))
    return out


CHECKS = {
    "C16": [transfer_relational, hierarchy],
    "C02": [frames],
    "C03": [frames],
    "C04": [frames],
}
