"""Builders for symbolic arguments (scenario type-cases).  Names are fixed (not path-fresh) so that
counter-models can be mapped back to arguments."""
from __future__ import annotations

import z3

from .ops import FloatQ
from .values import Arr2V, Blk, EnumV, Lit, MapV, Obj, Opaque, SeqV, Sym, WellV


def sint(name, np=False):
    return Sym(z3.Int(name), "int", np)


def sreal(name):
    return Sym(z3.Real(name), "real")


def sbool(name):
    return Sym(z3.Bool(name), "bool")


def sstr(name):
    return Sym(z3.String(name), "str")


def slist(name, elem, kind="list", length=None):
    """sequence of symbolic length `name_len` >= 0; elem(i_term) -> value"""
    n = z3.Int(name + "_len") if length is None else length
    return SeqV(kind, [Blk(n, elem)]), n


def real_fn(name):
    f = z3.Function(name, z3.IntSort(), z3.RealSort())
    return lambda i: Sym(f(_t(i)), "real")


def int_fn(name):
    f = z3.Function(name, z3.IntSort(), z3.IntSort())
    return lambda i: Sym(f(_t(i)), "int")


def well_fn(name):
    fr = z3.Function(name + "_r", z3.IntSort(), z3.IntSort())
    fc = z3.Function(name + "_c", z3.IntSort(), z3.IntSort())
    return lambda i: WellV(fr(_t(i)), fc(_t(i)))


def _t(i):
    if isinstance(i, int):
        return z3.IntVal(i)
    if isinstance(i, Sym):
        return i.t
    return i
