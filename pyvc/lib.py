"""Library models: the *assumed* contracts of builtins, numpy, math, re, str formatting ...

Every model here is part of the trusted base and is listed in the evidence; the ones with content
beyond plain Python semantics are conformance-tested against the real library on every run
(pyvc/conformance.py).
"""
from __future__ import annotations

import ast
import math
from fractions import Fraction

import z3

from . import ops
from .ops import FloatQ, SliceV, _raise, mk_bool, mk_num, unwrap_bool, zbool
from .values import (
    Arr2V,
    Blk,
    ColDigitsV,
    EnumV,
    ExcV,
    Lit,
    MapV,
    Obj,
    Opaque,
    RowLetterV,
    SeqV,
    SetV,
    Sym,
    Unsupported,
    WellV,
    has_sym,
    num_kind,
    term,
)

NOATTR = object()
USED = set()  # names of library models exercised in this process (reported as trusted base)


def used(name):
    USED.add(name)


# uninterpreted formatting functions -------------------------------------------------------------
FMT2F = z3.Function("fmt2f", z3.RealSort(), z3.StringSort())  # f"{x:.2f}"
ISTR = z3.Function("istr", z3.IntSort(), z3.StringSort())  # str(int)
RSTR = z3.Function("rstr", z3.RealSort(), z3.StringSort())  # str(float)
ROUND2 = z3.Function("round2", z3.RealSort(), z3.RealSort())  # numpy.round(x, 2)
ROUNDD = z3.Function("roundd", z3.RealSort(), z3.IntSort(), z3.RealSort())  # numpy.round(x, d)
WELLSTR = z3.Function("wellstr", z3.IntSort(), z3.IntSort(), z3.StringSort())  # "A01"-style id as a string
SEP = z3.StringVal(";")


def _no_sep(t):
    return z3.And(z3.Not(z3.Contains(t, SEP)), z3.Not(z3.Contains(t, z3.StringVal("\n"))), z3.Not(z3.Contains(t, z3.StringVal("\r"))))


def istr(ex, t):
    s = ISTR(t)
    used("str(int)/format(int): decimal digits, optional leading '-', no separator; injective")
    ex.p.assume(z3.And(_no_sep(s), z3.Length(s) >= 1))
    return s


def fmt2f(ex, t):
    s = FMT2F(t)
    used("format(float,'.2f'): separator-free decimal string determined by the value rounded to 2 decimals")
    ex.p.assume(z3.And(_no_sep(s), z3.Length(s) >= 4))
    return s


def rstr(ex, t):
    s = RSTR(t)
    used("str(float)/format(float,''): separator-free, round-trips")
    ex.p.assume(z3.And(_no_sep(s), z3.Length(s) >= 1))
    return s


def round_real(ex, x, d):
    """numpy.round(x, d) on a real: |r - x| <= 0.5*10^-d, r*10^d integral, monotone, idempotent on grid."""
    used("numpy.round(x, d): nearest multiple of 10^-d (ties to even)")
    xt = term(x, "real")
    if d == 2:
        r = ROUND2(xt)
    else:
        r = ROUNDD(xt, z3.IntVal(d))
    scale = 10 ** d
    k = z3.Int(ex.p.fresh_name("rk"))
    half = z3.RealVal(1) / (2 * scale)
    ex.p.assume(z3.And(r * scale == z3.ToReal(k), r - xt <= half, xt - r <= half))
    return Sym(r, "real")


# ----------------------------------------------------------------------------- format / strings


def format_value(ex, val, spec, conversion=-1):
    if conversion not in (-1, 115):  # !s
        if conversion == 114:
            raise Unsupported("!r conversion")
    if isinstance(val, EnumV):
        # IntEnum.__format__ is int.__format__ on CPython >= 3.11 (conformance-tested)
        used("format(IntEnum member) == format(int value)")
        val = val.value
    from .values import CondV

    if isinstance(val, CondV):
        a = format_value(ex, val.a, spec, conversion)
        b = format_value(ex, val.b, spec, conversion)
        return Sym(z3.If(val.c, term(a), term(b)), "str")
    if isinstance(val, bool) and spec == "":
        return "True" if val else "False"
    if isinstance(val, FloatQ) or (isinstance(val, Fraction) and not isinstance(val, int)):
        f = float(val)
        return format(f, spec)
    if isinstance(val, int) and not isinstance(val, bool) and spec == "02d" and val >= 1:
        return ColDigitsV(val)
    if isinstance(val, (int, float, str)) and not isinstance(val, Sym):
        try:
            return format(val, spec)
        except (ValueError, TypeError):
            _raise("ValueError", "format")
    if val is None:
        if spec == "":
            return "None"
        _raise("TypeError", "unsupported format string passed to NoneType.__format__")
    if isinstance(val, Sym):
        if val.ty == "str":
            if spec == "":
                return val
            if spec == "0>2":
                used("format(str,'0>2'): left-pad with '0' to width 2")
                ln = z3.Length(val.t)
                return Sym(z3.If(ln >= 2, val.t, z3.If(ln == 1, z3.Concat(z3.StringVal("0"), val.t), z3.StringVal("00"))), "str")
            raise Unsupported(f"format spec {spec!r} on symbolic str")
        if val.ty == "int":
            if spec in ("", "d"):
                return Sym(istr(ex, val.t), "str")
            if spec == "02d":
                used("format(int,'02d') of a column number: its digits, at least two")
                return ColDigitsV(val.t)
            raise Unsupported(f"format spec {spec!r} on symbolic int")
        if val.ty == "real":
            if spec == ".2f":
                return Sym(fmt2f(ex, val.t), "str")
            if spec == "":
                return Sym(rstr(ex, val.t), "str")
            raise Unsupported(f"format spec {spec!r} on symbolic float")
        if val.ty == "bool":
            if spec == "":
                return Sym(z3.If(val.t, z3.StringVal("True"), z3.StringVal("False")), "str")
    if isinstance(val, RowLetterV) and spec == "":
        return val
    if isinstance(val, WellV) and spec == "":
        return val
    if isinstance(val, ColDigitsV) and spec == "":
        return val
    raise Unsupported(f"format of {type(val).__name__} with spec {spec!r}")


class Fmt02d:
    """result of f"{c:02d}" for a symbolic column number c"""

    def __init__(self, c):
        self.c = c


def join_str_parts(ex, parts):
    """Concatenate string pieces (python str / Sym str / abstract well strings)."""
    norm = []
    for p in parts:
        if isinstance(p, ColDigitsV) and isinstance(p.c, int):
            p = f"{p.c:02d}"
        elif isinstance(p, RowLetterV) and isinstance(p.r, int):
            p = ops.ROW_LETTERS[p.r]
        norm.append(p)
    parts = norm
    flat = []
    for p in parts:
        if isinstance(p, str):
            if p == "":
                continue
            if flat and isinstance(flat[-1], str):
                flat[-1] += p
            else:
                flat.append(p)
        else:
            flat.append(p)
    if not flat:
        return ""
    if len(flat) == 1:
        return flat[0]
    # well-id pattern: row letter + two-digit column
    if len(flat) == 2 and isinstance(flat[0], RowLetterV) and isinstance(flat[1], ColDigitsV):
        return WellV(flat[0].r, flat[1].c)
    if len(flat) == 2 and isinstance(flat[0], str) and len(flat[0]) == 1 and flat[0] in ops.ROW_LETTERS and isinstance(flat[1], ColDigitsV):
        return WellV(ops.ROW_LETTERS.index(flat[0]), flat[1].c)
    if len(flat) == 2 and isinstance(flat[0], RowLetterV) and isinstance(flat[1], str) and flat[1].isdigit() and len(flat[1]) >= 2:
        return WellV(flat[0].r, int(flat[1]))
    ts = []
    for p in flat:
        if isinstance(p, str):
            ts.append(z3.StringVal(p))
        elif isinstance(p, Sym) and p.ty == "str":
            ts.append(p.t)
        elif isinstance(p, WellV):
            used("well-id strings: injective in (row, column), alphanumeric (no separator)")
            s = WELLSTR(term(p.r, "int"), term(p.c, "int"))
            ex.p.assume(z3.And(_no_sep(s), z3.Length(s) >= 3, z3.Not(z3.Contains(s, z3.StringVal(".")))))
            ts.append(s)
        else:
            raise Unsupported(f"string concatenation with {type(p).__name__}")
    return Sym(z3.Concat(*ts), "str")


def str_getitem(ex, v, idx):
    if isinstance(v, WellV):
        if isinstance(idx, int) and idx == 0:
            used("well-id strings: s[0] is the row letter, s[1:] the column digits")
            return RowLetterV(v.r)
        if isinstance(idx, SliceV) and idx.lo == 1 and idx.hi is None and idx.step is None:
            used("well-id strings: s[0] is the row letter, s[1:] the column digits")
            return ColDigitsV(v.c)
        raise Unsupported("subscript of abstract well string")
    if isinstance(v, Sym) and v.ty == "str":
        if isinstance(idx, int) and idx >= 0:
            if not ex.test(mk_bool(z3.Length(v.t) > idx), "strindex"):
                _raise("IndexError")
            return Sym(z3.SubString(v.t, idx, 1), "str")
        if isinstance(idx, int) and idx == -1:
            if not ex.test(mk_bool(z3.Length(v.t) > 0), "strindex"):
                _raise("IndexError")
            return Sym(z3.SubString(v.t, z3.Length(v.t) - 1, 1), "str")
        if isinstance(idx, SliceV) and idx.step is None:
            lo = 0 if idx.lo is None else idx.lo
            if isinstance(lo, int) and lo >= 0 and idx.hi is None:
                return Sym(z3.SubString(v.t, lo, z3.Length(v.t)), "str")
            if isinstance(lo, int) and lo >= 0 and isinstance(idx.hi, int) and idx.hi >= lo:
                return Sym(z3.SubString(v.t, lo, idx.hi - lo), "str")
    raise Unsupported("subscript of symbolic string")


def str_slice_symbolic(ex, s: str, sl: SliceV):
    """'ABC...'[:n] with symbolic n -> tuple-able sequence of chars (row letters when s is the alphabet)."""
    if sl.lo is None and sl.step is None and s == ops.ROW_LETTERS:
        n = sl.hi
        if isinstance(n, EnumV):
            n = n.value
        if num_kind(n) != "int":
            _raise("TypeError", "slice indices must be integers")
        nt = term(n, "int")
        ln = z3.simplify(z3.If(nt < 0, z3.If(26 + nt < 0, 0, 26 + nt), z3.If(nt > 26, 26, nt)))
        used("'ABC..Z'[:n]: the first min(n,26) letters")
        return RowPrefix(ln)
    raise Unsupported("symbolic slice of a string constant")


class RowPrefix:
    """The string 'ABC...'[:n] for symbolic n (0 <= n <= 26)."""

    def __init__(self, n):
        self.n = n


def iter_view_special(ex, v):
    if isinstance(v, RowPrefix):
        return v.n, (lambda i: RowLetterV(i if isinstance(i, int) else term(i, "int")))
    if isinstance(v, ops.ops_Range):
        lo, hi = v.lo, v.hi
        if isinstance(lo, int) and isinstance(hi, int):
            return max(0, hi - lo), (lambda i: lo + i)
        n = z3.simplify(z3.If(term(hi, "int") - term(lo, "int") < 0, 0, term(hi, "int") - term(lo, "int")))
        if z3.is_int_value(n):
            return n.as_long(), (lambda i: ops.binop(ex, "+", lo, i))
        return n, (lambda i: ops.binop(ex, "+", lo, i if isinstance(i, (int, Sym)) else Sym(i, "int")))
    if isinstance(v, ZipV):
        views = [ops.iter_view(ex, s) for s in v.seqs]
        ns = [n for n, _ in views]
        if all(isinstance(n, int) for n in ns):
            n = min(ns) if ns else 0
        else:
            n = term(ns[0], "int")
            for m in ns[1:]:
                mt = term(m, "int")
                n = z3.If(mt < n, mt, n)
            n = z3.simplify(n)
            if z3.is_int_value(n):
                n = n.as_long()
        return n, (lambda i: SeqV.of("tuple", [at(i) for _, at in views]))
    if isinstance(v, EnumerateV):
        n, at = ops.iter_view(ex, v.seq)
        return n, (lambda i: SeqV.of("tuple", [ops.binop(ex, "+", v.start, i if isinstance(i, (int, Sym)) else Sym(i, "int")), at(i)]))
    if isinstance(v, MapIterV):
        n, at = ops.iter_view(ex, v.seq)
        return n, (lambda i: ex.call(v.fn, [at(i)], {}))
    if isinstance(v, ItemsV):
        m = v.m
        if m.is_concrete():
            items = list(m.items)
            return len(items), (lambda i: SeqV.of("tuple", [items[i][0], items[i][1]]))
        if m.keyseq is not None:
            n, at = ops.iter_view(ex, m.keyseq)
            return n, (lambda i: SeqV.of("tuple", [at(i), m.fn(at(i))]))
        raise Unsupported("items() of a functional map without key order")
    if isinstance(v, Obj) and "__records__" in v.fields:
        return ops.iter_view(ex, v.fields["__records__"])
    if isinstance(v, NdEnumV):
        a = v.arr
        if isinstance(a, Arr2V) and isinstance(a.rows, int) and isinstance(a.cols, int):
            R, Cn = a.rows, a.cols
            return R * Cn, (lambda i: SeqV.of("tuple", [SeqV.of("tuple", [i // Cn, i % Cn]), a.fn(i // Cn, i % Cn)]))
        raise Unsupported("ndenumerate over symbolic shape (needs loop spec support)")
    return None


class ZipV:
    def __init__(self, seqs):
        self.seqs = seqs


class EnumerateV:
    def __init__(self, seq, start=0):
        self.seq = seq
        self.start = start


class MapIterV:
    def __init__(self, fn, seq):
        self.fn = fn
        self.seq = seq


class ItemsV:
    def __init__(self, m):
        self.m = m


class NdEnumV:
    def __init__(self, arr):
        self.arr = arr


# ----------------------------------------------------------------------------- type tests


def type_name(tv):
    from .engine import BuiltinV, ClassV

    if isinstance(tv, BuiltinV):
        return tv.name
    if isinstance(tv, ClassV):
        return "class:" + tv.name
    raise Unsupported(f"isinstance against {tv!r}")


def isinstance_(ex, v, tv):
    from .engine import ClassV

    if isinstance(tv, SeqV):
        return any(isinstance_(ex, v, t) for t in tv.concrete_items())
    tn = type_name(tv)
    if isinstance(v, Opaque):
        return tn in v.types
    if tn == "object":
        return True
    if tn == "int":
        return (isinstance(v, int) and not isinstance(v, Fraction)) or isinstance(v, EnumV) or (isinstance(v, Sym) and v.ty in ("int", "bool") and not v.np)
    if tn == "bool":
        return isinstance(v, bool) or (isinstance(v, Sym) and v.ty == "bool" and not v.np)
    if tn == "float":
        return isinstance(v, (float, FloatQ)) or (isinstance(v, Sym) and v.ty == "real")
    if tn == "str":
        return isinstance(v, (str, WellV, RowLetterV, ColDigitsV, RowPrefix)) or (isinstance(v, Sym) and v.ty == "str")
    if tn == "list":
        return isinstance(v, SeqV) and v.kind == "list"
    if tn == "tuple":
        return isinstance(v, SeqV) and v.kind == "tuple"
    if tn == "dict":
        return isinstance(v, MapV)
    if tn == "set":
        return isinstance(v, SetV)
    if tn == "numpy.ndarray":
        return (isinstance(v, SeqV) and v.kind == "array") or isinstance(v, Arr2V)
    if tn in ("numpy.integer",):
        return isinstance(v, Sym) and v.ty == "int" and v.np
    if tn in ("collections.abc.Iterable", "typing.Iterable"):
        return isinstance(v, (SeqV, Arr2V, MapV, SetV, str, WellV, RowLetterV, ColDigitsV, RowPrefix)) or (isinstance(v, Sym) and v.ty == "str")
    if tn.startswith("class:"):
        cname = tn[6:]
        if isinstance(v, EnumV):
            return v.cls == cname
        if isinstance(v, Obj):
            cv = v.fields.get("__class__")
            if isinstance(cv, ClassV):
                return any(isinstance(c, ClassV) and c.name == cname for c in ex.class_mro(cv))
            return v.cls == cname
        if isinstance(v, ExcV):
            return ex.exc_is_subclass(v.cls, cname)
        return False
    if tn in ("pathlib.Path",):
        return isinstance(v, Obj) and v.cls == "Path"
    raise Unsupported(f"isinstance(_, {tn})")


# ----------------------------------------------------------------------------- builtins


def to_float(ex, v):
    """float(v) with its exceptions."""
    if isinstance(v, bool):
        return FloatQ(int(v))
    if isinstance(v, (int, Fraction)):
        return FloatQ(v)
    if isinstance(v, float):
        return v if ops.special_float(v) else FloatQ(Fraction(v))
    if isinstance(v, EnumV):
        return to_float(ex, v.value)
    if isinstance(v, Sym):
        if v.ty in ("int", "bool"):
            return Sym(term(v, "real"), "real")
        if v.ty == "real":
            return Sym(v.t, "real")
        if v.ty == "str":
            used("float(str): a finite float, nan, +-inf, or ValueError")
            k = ex.p.choose(5, "float(str)")
            if k == 0:
                return ex.p.fresh("strfloat", "real")
            if k == 1:
                return float("nan")
            if k == 2:
                return float("inf")
            if k == 3:
                return float("-inf")
            _raise("ValueError", "could not convert string to float")
    if isinstance(v, str):
        try:
            return to_float(ex, float(v))
        except ValueError:
            _raise("ValueError", "could not convert string to float")
    if isinstance(v, SeqV) and v.kind == "array":
        n = ops.seq_len(v)
        if isinstance(n, int) and n == 1:
            return to_float(ex, ops.seq_get(ex, v, 0))
    _raise("TypeError", "float() argument must be a string or a real number")


def to_int(ex, v):
    if isinstance(v, bool):
        return int(v)
    if isinstance(v, int):
        return v
    if isinstance(v, EnumV):
        return v.value
    if isinstance(v, (float, Fraction)):
        if isinstance(v, float) and ops.special_float(v):
            _raise("ValueError" if v != v else "OverflowError")
        return int(v)
    if isinstance(v, str):
        try:
            return int(v)
        except ValueError:
            _raise("ValueError", "invalid literal for int()")
    if isinstance(v, ColDigitsV):
        used("int(column digits) is the column number")
        return v.c if isinstance(v.c, int) else Sym(term(v.c, "int"), "int")
    if isinstance(v, Sym):
        if v.ty == "int":
            return Sym(v.t, "int")
        if v.ty == "bool":
            return Sym(term(v, "int"), "int")
        if v.ty == "real":
            used("int(float): truncation toward zero")
            k = z3.Int(ex.p.fresh_name("trunc"))
            x = v.t
            ex.p.assume(z3.If(x >= 0, z3.And(z3.ToReal(k) <= x, x < z3.ToReal(k) + 1), z3.And(z3.ToReal(k) >= x, x > z3.ToReal(k) - 1)))
            return Sym(k, "int")
    if v is None:
        _raise("TypeError", "int() argument")
    raise Unsupported(f"int() of {type(v).__name__}")


def ceil_real(ex, x, what="ceil"):
    """math.ceil / math.floor of a real -> int, multiplicative-free encoding k-1 < x <= k."""
    xt = term(x, "real")
    k = z3.Int(ex.p.fresh_name(what))
    if what == "ceil":
        ex.p.assume(z3.And(z3.ToReal(k) - 1 < xt, xt <= z3.ToReal(k)))
    else:
        ex.p.assume(z3.And(z3.ToReal(k) <= xt, xt < z3.ToReal(k) + 1))
    return Sym(k, "int")


def ceil_of_quotient(ex, a, b, what="ceil"):
    """ceil(a / b) for b > 0 encoded multiplicatively: (k-1)*b < a <= k*b (see DESIGN 2.5)."""
    at, bt = term(a, "real"), term(b, "real")
    # ceil / floor are functions: the same quotient gets the same integer (code and spec then share one term)
    key = (what, z3.simplify(at).sexpr(), z3.simplify(bt).sexpr())
    memo = ex.p.ghost.setdefault("quotient_ints", {})
    if key in memo:
        return Sym(memo[key], "int")
    k = z3.Int(ex.p.fresh_name(what))
    memo[key] = k
    kr = z3.ToReal(k)
    if what == "ceil":
        ex.p.assume(z3.Implies(bt > 0, z3.And((kr - 1) * bt < at, at <= kr * bt)))
    else:
        ex.p.assume(z3.Implies(bt > 0, z3.And(kr * bt <= at, at < (kr + 1) * bt)))
    return Sym(k, "int")


class QuotV(Sym):
    """A real quotient a/b that remembers its operands (so ceil/floor can be encoded multiplicatively)."""

    __slots__ = ("a", "b")


def builtin_sum(ex, v, start=0):
    if isinstance(v, SymSetV):
        return sum_symset(ex, v, start)
    if isinstance(v, SetV):
        items = v.items
    elif isinstance(v, SeqV) and v.is_concrete_len():
        items = v.concrete_items()
    elif isinstance(v, SeqV):
        return ops.binop(ex, "+", start, seq_sum(ex, v))
    else:
        items = ops.iter_concrete(ex, v)
    acc = start
    for x in items:
        acc = ops.binop(ex, "+", acc, x)
    return acc


_sum_counter = [0]


def seq_sum(ex, v: SeqV):
    """Sum of a sequence; blocks of symbolic length use constant folding or a recursive z3 function."""
    acc = 0
    for s in v.segs:
        if isinstance(s, Lit):
            for x in s.items:
                acc = ops.binop(ex, "+", acc, x)
        else:
            n = s.n
            if isinstance(n, int):
                for i in range(n):
                    acc = ops.binop(ex, "+", acc, s.fn(i))
                continue
            j = z3.Int("sumidx")
            probe = s.fn(Sym(j, "int"))
            if isinstance(probe, bool) or (isinstance(probe, Sym) and probe.ty == "bool"):
                # number of true entries of a boolean block of symbolic length: characterised by the facts a caller can
                # observe through comparisons with 0, 1 and 2 (sound consequences of counting; nothing else is assumed)
                used("sum of a boolean array == number of true entries (facts: 0 <= c <= n; c >= 1 iff some entry; c >= 2 iff two entries)")
                c = z3.Int(ex.p.fresh_name("count"))
                j1, j2 = z3.Int(ex.p.fresh_name("cj")), z3.Int(ex.p.fresh_name("ck"))
                bt = zbool(unwrap_bool(probe))
                b1, b2 = z3.substitute(bt, (j, j1)), z3.substitute(bt, (j, j2))
                ex.p.assume(z3.And(c >= 0, c <= n))
                ex.p.assume((c >= 1) == z3.Exists([j1], z3.And(j1 >= 0, j1 < n, b1)))
                ex.p.assume((c >= 2) == z3.Exists([j1, j2], z3.And(j1 >= 0, j1 < j2, j2 < n, b1, b2)))
                acc = ops.binop(ex, "+", acc, Sym(c, "int"))
                continue
            kind = num_kind(probe)
            if kind is None:
                raise Unsupported("sum over non-numeric block")
            pt = term(probe, "real" if kind == "real" else "int")
            if not _mentions(pt, j):
                used("sum of a constant block == value * length")
                acc = ops.binop(ex, "+", acc, ops.binop(ex, "*", probe, Sym(n, "int")))
                continue
            _sum_counter[0] += 1
            sort = z3.RealSort() if kind == "real" else z3.IntSort()
            S = z3.RecFunction(ex.p.fresh_name("seqsum"), z3.IntSort(), sort)
            z3.RecAddDefinition(S, j, z3.If(j <= 0, term(0, kind), S(j - 1) + z3.substitute(pt, (j, j - 1))))
            acc = ops.binop(ex, "+", acc, Sym(S(n), kind))
    return acc


def _mentions(t, v):
    seen = set()
    stack = [t]
    while stack:
        x = stack.pop()
        if x.get_id() in seen:
            continue
        seen.add(x.get_id())
        if z3.eq(x, v):
            return True
        stack.extend(x.children())
    return False


def call_builtin(ex, name, args, kw):
    from .engine import BuiltinV, PyRaise

    fn = BUILTINS.get(name)
    if fn is None:
        if name in __import__("pyvc.engine", fromlist=["BUILTIN_EXC"]).BUILTIN_EXC:
            return ExcV(name, args)
        raise Unsupported(f"library function {name}")
    return fn(ex, *args, **kw)


def b_len(ex, v):
    if isinstance(v, RangeDiffV):
        v = range_diff_list(ex, v)
    if isinstance(v, SeqV):
        n = ops.seq_len(v)
        return n if isinstance(n, int) else Sym(n, "int")
    if isinstance(v, Arr2V):
        return v.rows if isinstance(v.rows, int) else Sym(term(v.rows, "int"), "int")
    if isinstance(v, str):
        return len(v)
    if isinstance(v, Sym) and v.ty == "str":
        return Sym(z3.Length(v.t), "int")
    if isinstance(v, SetV):
        return len(v.items)
    if isinstance(v, OutsideV):
        items = v.seq.concrete_items()
        acc = 0
        for i, x in enumerate(items):
            out = ops.compare(ex, "not in", x, ops.ops_Range(v.lo, v.hi))
            first = True
            for y in items[:i]:
                first = ops.and_(ex, first, ops.compare(ex, "!=", x, y))
            c = ops.and_(ex, out, first)
            acc = ops.binop(ex, "+", acc, (1 if c else 0) if isinstance(c, bool) else ops.ite(ex, unwrap_bool(c), 1, 0))
        return acc
    if isinstance(v, SymSetV):
        items = v.seq.concrete_items()
        acc = 0
        for i, x in enumerate(items):
            first = True
            for y in items[:i]:
                first = ops.and_(ex, first, ops.compare(ex, "!=", x, y))
            acc = ops.binop(ex, "+", acc, (1 if first else 0) if isinstance(first, bool) else ops.ite(ex, unwrap_bool(first), 1, 0))
        return acc
    if isinstance(v, MapV):
        if v.is_concrete():
            # keys may be symbolic but were deduplicated on insertion
            return len(v.items)
        raise Unsupported("len of functional map")
    if isinstance(v, WellV):
        raise Unsupported("len of abstract well string")
    if isinstance(v, RowLetterV):
        return 1
    if isinstance(v, RowPrefix):
        return v.n if isinstance(v.n, int) else Sym(v.n, "int")
    if isinstance(v, Obj):
        r = obj_len(ex, v)
        if r is not NOATTR:
            return r
    if v is None or num_kind(v):
        _raise("TypeError", "object has no len()")
    raise Unsupported(f"len of {type(v).__name__}")


def b_minmax(which):
    def f(ex, *args, **kw):
        if kw:
            raise Unsupported("min/max with key")
        if len(args) == 1:
            items = ops.iter_concrete(ex, args[0]) if not isinstance(args[0], MapIterV) else ops.iter_concrete(ex, args[0])
        else:
            items = list(args)
        if not items:
            _raise("ValueError", "min()/max() arg is an empty sequence")
        acc = items[0]
        for x in items[1:]:
            c = ops.compare(ex, ">" if which == "max" else "<", x, acc)
            if isinstance(c, bool):
                acc = x if c else acc
            else:
                acc = ops.ite(ex, unwrap_bool(c), x, acc)
        return acc

    return f


def b_isinstance(ex, v, tv):
    return isinstance_(ex, v, tv)


def b_range(ex, *a):
    if len(a) == 1:
        lo, hi = 0, a[0]
    elif len(a) == 2:
        lo, hi = a
    else:
        raise Unsupported("range with step")
    for x in (lo, hi):
        if isinstance(x, EnumV):
            continue
        if num_kind(x) != "int" or ops.is_floatlike(x):
            _raise("TypeError", "range() integer argument expected")
    if isinstance(lo, EnumV):
        lo = lo.value
    if isinstance(hi, EnumV):
        hi = hi.value
    return ops.ops_Range(lo, hi)


def range_diff_list(ex, v):
    """list(set(range(lo, hi)).difference(xs)) for a concrete-length list xs of (symbolic) ints, in ascending order:
    the gaps of [lo, hi) left by the members (iteration order of a set of small ints is ascending in CPython; the R record
    sorts the exclusions anyway)."""
    xs = ops.iter_concrete(ex, v.xs)
    ys = b_sorted(ex, SeqV.of("list", xs)).concrete_items() if xs else []
    lo, hi = v.lo, v.hi

    def clip_max(a, b):
        c = ops.compare(ex, ">=", a, b)
        return (a if c else b) if isinstance(c, bool) else ops.ite(ex, unwrap_bool(c), a, b)

    def clip_min(a, b):
        c = ops.compare(ex, "<=", a, b)
        return (a if c else b) if isinstance(c, bool) else ops.ite(ex, unwrap_bool(c), a, b)

    bounds = []  # half-open gaps [a, b)
    prev = lo
    for y in ys:
        bounds.append((prev, y))
        prev = clip_max(prev, ops.binop(ex, "+", y, 1))
    bounds.append((prev, hi))
    segs = []
    for a, b in bounds:
        a2 = clip_max(a, lo)
        b2 = clip_min(b, hi)
        n = ops.binop(ex, "-", b2, a2)
        if isinstance(n, int):
            segs.append(Lit([ops.binop(ex, "+", a2, j) for j in range(max(n, 0))]))
        else:
            nt = z3.simplify(z3.If(term(n, "int") < 0, 0, term(n, "int")))
            segs.append(Blk(nt, lambda j, a2=a2: ops.binop(ex, "+", a2, j if isinstance(j, (int, Sym)) else Sym(j, "int"))))
    r = SeqV("list", segs)
    r.ascending = True
    used("set(range(a, b)).difference(xs): the gaps of [a, b) left by the sorted members")
    return r


def b_list(ex, v=None):
    if v is None:
        return SeqV("list")
    if isinstance(v, RangeDiffV):
        return range_diff_list(ex, v)
    if isinstance(v, SeqV):
        return v.copy("list")
    if isinstance(v, RowPrefix):
        return SeqV("list", [Blk(v.n, lambda i: RowLetterV(i if isinstance(i, int) else term(i, "int")))])
    n, at = ops.iter_view(ex, v)
    if isinstance(n, int):
        return SeqV.of("list", [at(i) for i in range(n)])
    return SeqV("list", [Blk(n, at)])


def b_tuple(ex, v=None):
    r = b_list(ex, v)
    r.kind = "tuple"
    return r


class SymSetV:
    """set(xs) of a sequence with symbolic elements"""

    def __init__(self, seq):
        self.seq = seq


TIP_UNIVERSE = [1, 2, 4, 8, 16, 32, 64, 128]


def sum_symset(ex, ss, start=0):
    """sum(set(xs)) == sum over a finite universe U of v*[v in xs], valid when every element lies in U."""
    seq = ss.seq
    n = ops.seq_len(seq)
    i = z3.Int(ex.p.fresh_name("su"))

    def val(x):
        return term(x, "int")

    if seq.is_concrete_len():
        items = seq.concrete_items()
        if any(num_kind(x) != "int" for x in items):
            raise Unsupported("sum(set()) of non-integers")
        inU = z3.And(*[z3.Or(*[val(x) == u for u in TIP_UNIVERSE]) for x in items]) if items else z3.BoolVal(True)
    else:
        xi = ops.seq_get(ex, seq, Sym(i, "int"))
        if num_kind(xi) != "int":
            raise Unsupported("sum(set()) of non-integers")
        inU = z3.ForAll([i], z3.Implies(z3.And(i >= 0, i < term(n, "int")), z3.Or(*[val(xi) == u for u in TIP_UNIVERSE])))
    ex.p.solver.push()
    ex.p.solver.add(z3.Not(inU))
    r = ex.p.solver.check()
    ex.p.solver.pop()
    if r != z3.unsat:
        raise Unsupported("sum(set(xs)): elements not provably inside the finite universe {1,2,4,...,128}")
    used("sum(set(xs)) over xs in {1,2,4,..,128}: sum of the distinct values present")
    total = start
    for u in TIP_UNIVERSE:
        if seq.is_concrete_len():
            present = z3.Or(*[val(x) == u for x in seq.concrete_items()]) if seq.concrete_items() else z3.BoolVal(False)
        else:
            j = z3.Int(ex.p.fresh_name("sj"))
            xj = ops.seq_get(ex, seq, Sym(j, "int"))
            present = z3.Exists([j], z3.And(j >= 0, j < term(n, "int"), val(xj) == u))
        total = ops.binop(ex, "+", total, ops.ite(ex, z3.simplify(present), u, 0) if not z3.is_true(z3.simplify(present)) and not z3.is_false(z3.simplify(present)) else (u if z3.is_true(z3.simplify(present)) else 0))
    return total


def b_set(ex, v=None):
    if v is None:
        return SetV([])
    if isinstance(v, SeqV):
        if not v.is_concrete_len():
            return SymSetV(v.copy())
        items = v.concrete_items()
        if any(has_sym(x) for x in items):
            return SymSetV(v.copy())
    if isinstance(v, ops.ops_Range) and not (isinstance(v.lo, int) and isinstance(v.hi, int)):
        return RangeSetV(v.lo, v.hi)
    return SetV(ops.dedupe(ex, ops.iter_concrete(ex, v)))


class RangeSetV:
    def __init__(self, lo, hi):
        self.lo, self.hi = lo, hi


class SortedSetV:
    """sorted(set(xs)) for symbolic xs; only compared with xs itself (xs == sorted(set(xs)) <=> xs strictly ascending)"""

    def __init__(self, seq):
        self.seq = seq


def b_sorted(ex, v, **kw):
    if kw:
        raise Unsupported("sorted with key/reverse")
    if isinstance(v, SymSetV):
        return SortedSetV(v.seq)
    items = ops.iter_concrete(ex, v)
    if all(not has_sym(x) and ops.is_concrete_scalar(x) for x in items):
        try:
            return SeqV.of("list", sorted(items))
        except TypeError:
            _raise("TypeError", "sorted")
    if all(isinstance(x, WellV) and not has_sym(x) for x in items):
        return SeqV.of("list", sorted(items, key=lambda w: (w.r, f"{w.c:02d}")))
    # small symbolic sort: odd-even network on concrete length
    arr = list(items)
    n = len(arr)
    used("sorted(): ascending permutation (sorting network over a concrete length)")
    for i in range(n):
        for j in range(0, n - 1 - i):
            c = ops.compare(ex, ">", arr[j], arr[j + 1])
            if isinstance(c, bool):
                if c:
                    arr[j], arr[j + 1] = arr[j + 1], arr[j]
            else:
                ct = unwrap_bool(c)
                a, b = arr[j], arr[j + 1]
                arr[j], arr[j + 1] = ops.ite(ex, ct, b, a), ops.ite(ex, ct, a, b)
    return SeqV.of("list", arr)


def b_str(ex, v=""):
    return format_value(ex, v, "")


def b_bool(ex, v=False):
    t = ops.truthy(ex, v)
    return t if isinstance(t, bool) else Sym(t, "bool")


def b_abs(ex, v):
    c = ops.compare(ex, "<", v, 0)
    if isinstance(c, bool):
        return ops.binop(ex, "-", 0, v) if c else v
    return ops.ite(ex, unwrap_bool(c), ops.binop(ex, "-", 0, v), v)


def b_all_any(which):
    def f(ex, v):
        if isinstance(v, SeqV) and not v.is_concrete_len():
            n = ops.seq_len(v)
            i = z3.Int(ex.p.fresh_name("q"))
            e = zbool(ops.truthy(ex, ops.seq_get(ex, v, Sym(i, "int"))))
            rng = z3.And(i >= 0, i < term(n, "int"))
            return mk_bool(z3.ForAll([i], z3.Implies(rng, e)) if which == "all" else z3.Exists([i], z3.And(rng, e)))
        items = ops.iter_concrete(ex, v)
        ts = [ops.truthy(ex, x) for x in items]
        if all(isinstance(t, bool) for t in ts):
            return all(ts) if which == "all" else any(ts)
        zs = [zbool(t) for t in ts]
        return mk_bool(z3.And(*zs) if which == "all" else z3.Or(*zs))

    return f


def b_round(ex, x, nd=None):
    if not has_sym(x) and not isinstance(x, EnumV):
        if isinstance(x, Fraction) and not isinstance(x, int):
            r = round(float(x), nd) if nd is not None else round(float(x))
            return FloatQ(Fraction(r)) if nd is not None else r
        return round(x, nd) if nd is not None else round(x)
    if nd is None:
        if num_kind(x) == "int":
            return x
        used("round(x): nearest integer, ties to even")
        xt = term(x, "real")
        k = z3.Int(ex.p.fresh_name("round"))
        kr = z3.ToReal(k)
        half = z3.RealVal(1) / 2
        ex.p.assume(z3.And(kr - half <= xt, xt <= kr + half, z3.Implies(z3.Or(xt == kr + half, xt == kr - half), k % 2 == 0)))
        return Sym(k, "int")
    return round_real(ex, x, nd)


def b_chr(ex, v):
    if isinstance(v, int):
        return chr(v)
    used("chr(n): one-character string with code point n")
    return Sym(z3.StrFromCode(term(v, "int")), "str")


def b_ord(ex, v):
    if isinstance(v, str):
        return ord(v)
    return Sym(z3.StrToCode(term(v)), "int")


def b_float(ex, v=0.0):
    return to_float(ex, v)


def b_int(ex, v=0, base=None):
    if base is not None:
        raise Unsupported("int with base")
    return to_int(ex, v)


def b_zip(ex, *seqs):
    return ZipV(list(seqs))


def b_enumerate(ex, seq, start=0):
    return EnumerateV(seq, start)


def b_map(ex, fn, seq):
    return MapIterV(fn, seq)


def b_callable(ex, v):
    from .engine import BoundV, BuiltinV, Closure, FuncV, HostFn

    return isinstance(v, (FuncV, BoundV, Closure, BuiltinV, HostFn))


def b_dict(ex, v=None, **kw):
    if v is None:
        return MapV(items=list(kw.items()))
    if isinstance(v, MapV) and v.is_concrete():
        return MapV(items=list(v.items))
    raise Unsupported("dict() of non-concrete")


def math_ceil_floor(what):
    def f(ex, x):
        if isinstance(x, QuotV):
            return ceil_of_quotient(ex, x.a, x.b, what)
        if not has_sym(x):
            if isinstance(x, float) and ops.special_float(x):
                _raise("ValueError" if x != x else "OverflowError")
            return math.ceil(x) if what == "ceil" else math.floor(x)
        if num_kind(x) == "int":
            return x
        return ceil_real(ex, x, what)

    return f


def np_isnan(ex, x):
    if isinstance(x, SeqV) or isinstance(x, Arr2V):
        return ops.seq_map(ex, x, lambda e: np_isnan(ex, e), "array" if isinstance(x, SeqV) else None)
    if isinstance(x, float):
        return x != x
    if num_kind(x):
        return False
    _raise("TypeError", "isnan")


def np_isfinite(ex, x):
    if isinstance(x, SeqV) or isinstance(x, Arr2V):
        return ops.seq_map(ex, x, lambda e: np_isfinite(ex, e), "array" if isinstance(x, SeqV) else None)
    if isinstance(x, float):
        return not ops.special_float(x)
    if num_kind(x):
        return True
    _raise("TypeError", "isfinite")


def np_array(ex, v, dtype=None, **kw):
    """numpy.array / asarray: shape classes 0-d (scalar), 1-D, 2-D."""
    used("numpy.array/asarray: 0-d for scalars, 1-D for flat sequences, 2-D for sequences of equal-length sequences")
    if isinstance(v, Arr2V):
        return v.copy()
    if isinstance(v, SeqV):
        # 2-D if the elements are sequences
        first = None
        n = ops.seq_len(v)
        if isinstance(n, int):
            if n > 0:
                first = ops.seq_get(ex, v, 0)
        else:
            first = ops.seq_get(ex, v, Sym(z3.Int("probe_idx"), "int"))
        if isinstance(first, SeqV):
            src = v.copy()
            cols = ops.seq_len(first)
            if isinstance(n, int) and v.is_concrete_len():
                rows_items = v.concrete_items()
                for r in rows_items:
                    if not isinstance(r, SeqV) or not ops._same_dim(ex, ops.seq_len(r), cols):
                        raise Unsupported("ragged nested sequence in numpy.array")
                return Arr2V(n, cols, lambda i, j: ops.seq_get(ex, _row_at(ex, rows_items, i), ops._ix(j)))
            return Arr2V(n, cols, lambda i, j: ops.seq_get(ex, ops.seq_get(ex, src, ops._ix(i)), ops._ix(j)))
        r = v.copy("array")
        return r
    if isinstance(v, RowPrefix):
        raise Unsupported("numpy.array of a string prefix")
    return Arr0V(v)


def _row_at(ex, rows_items, i):
    if isinstance(i, int):
        return rows_items[i]
    it = term(i, "int")
    s = z3.simplify(it)
    if z3.is_int_value(s):
        return rows_items[s.as_long()]
    raise Unsupported("symbolic row index into concrete nested list")


class Arr0V:
    """0-d numpy array wrapping a scalar."""

    def __init__(self, v):
        self.v = v


def np_atleast_1d(ex, v):
    a = np_array(ex, v)
    if isinstance(a, Arr0V):
        return SeqV.of("array", [a.v])
    return a


def flatten(ex, a, order="C"):
    if order not in ("C", "F"):
        # 'K' / 'A' follow the memory layout of the array, which the value model does not represent
        raise Unsupported(f"flatten/ravel with order={order!r} depends on the memory layout (not modelled)")
    if isinstance(a, Arr0V):
        return SeqV.of("array", [a.v])
    if isinstance(a, SeqV):
        return a.copy("array")
    if isinstance(a, Arr2V):
        src = a.copy()
        R, Cn = src.rows, src.cols
        if isinstance(R, int) and isinstance(Cn, int):
            if order == "F":
                return SeqV.of("array", [src.fn(i, j) for j in range(Cn) for i in range(R)])
            return SeqV.of("array", [src.fn(i, j) for i in range(R) for j in range(Cn)])
        Rt, Ct = term(R, "int"), term(Cn, "int")
        n = z3.simplify(Rt * Ct)
        if order == "F":
            used("ndarray.flatten('F'): out[k] = a[k mod rows, k div rows]")
            return SeqV("array", [Blk(n, lambda k: src.fn(_mk(term(k, "int") % Rt), _mk(term(k, "int") / Rt)))])
        used("ndarray.flatten(): out[k] = a[k div cols, k mod cols]")
        return SeqV("array", [Blk(n, lambda k: src.fn(_mk(term(k, "int") / Ct), _mk(term(k, "int") % Ct)))])
    raise Unsupported(f"flatten of {type(a).__name__}")


def _mk(t):
    t = z3.simplify(t)
    return t.as_long() if z3.is_int_value(t) else t


def np_repeat(ex, a, n):
    used("numpy.repeat(x, n) on a length-1 array: n copies")
    if isinstance(a, Arr0V):
        a = SeqV.of("array", [a.v])
    if isinstance(a, SeqV):
        ln = ops.seq_len(a)
        if isinstance(ln, int) and ln == 1:
            r = ops.seq_repeat(ex, a, n)
            r.kind = "array"
            return r
        if not isinstance(ln, int):
            # symbolic length known to be 1 on this path
            ex.p.solver.push()
            ex.p.solver.add(ln != 1)
            one = ex.p.solver.check() == z3.unsat
            ex.p.solver.pop()
            if one:
                r = ops.seq_repeat(ex, SeqV.of("array", [ops.seq_get(ex, a, 0)]), n)
                r.kind = "array"
                return r
    raise Unsupported("numpy.repeat of a non-singleton")


def np_sum(ex, v, **kw):
    if kw:
        raise Unsupported("numpy.sum with axis")
    if isinstance(v, SeqV):
        if ops.seq_len(v) == 0 and isinstance(ops.seq_len(v), int):
            return FloatQ(0)
        if v.is_concrete_len() and any(isinstance(e, (SeqV, Arr2V, Arr0V)) for e in v.concrete_items()):
            # numpy.sum without axis adds up every element of the (nested) array
            used("numpy.sum(nested) == sum over all elements")
            flat = []
            for e in v.concrete_items():
                if isinstance(e, SeqV) and e.is_concrete_len():
                    if any(isinstance(x, (SeqV, Arr2V)) for x in e.concrete_items()):
                        raise Unsupported("numpy.sum of a deeply nested value")
                    flat.extend(e.concrete_items())
                elif isinstance(e, Arr0V):
                    flat.append(e.v)
                else:
                    raise Unsupported("numpy.sum of a nested value of symbolic shape")
            lens = {len(e.concrete_items()) for e in v.concrete_items() if isinstance(e, SeqV)}
            if len(lens) > 1 or any(not isinstance(e, SeqV) for e in v.concrete_items()):
                raise Unsupported("numpy.sum of a ragged nested value")
            if not flat:
                return FloatQ(0)
            return seq_sum(ex, SeqV.of("array", flat))
        return seq_sum(ex, v)
    if isinstance(v, Arr0V):
        return v.v
    raise Unsupported("numpy.sum of this value")


def np_all_any(which):
    inner = b_all_any(which)

    def f(ex, v, **kw):
        if set(kw) == {"axis"} and kw["axis"] == 0 and isinstance(v, Arr2V):
            # column-wise reduction: 1-D boolean array of length cols, entry j = all/any over the rows of column j
            used(f"numpy.{which}(a, axis=0) == per-column {which} over the rows")
            Rt = term(v.rows, "int")

            def col(j, v=v):
                i = z3.Int(ex.p.fresh_name("qr"))
                e = zbool(unwrap_bool(ops.truthy(ex, v.fn(Sym(i, "int"), j if isinstance(j, (int, Sym)) else Sym(j, "int")))))
                rng = z3.And(i >= 0, i < Rt)
                return mk_bool(z3.ForAll([i], z3.Implies(rng, e)) if which == "all" else z3.Exists([i], z3.And(rng, e)))

            return SeqV("array", [Blk(v.cols if isinstance(v.cols, int) else term(v.cols, "int"), col)])
        if kw:
            raise Unsupported("numpy.all/any with axis")
        if isinstance(v, bool) or (isinstance(v, Sym) and v.ty == "bool"):
            return v
        if isinstance(v, Arr0V):
            return b_bool(ex, v.v)
        if isinstance(v, Arr2V):
            if isinstance(v.rows, int) and isinstance(v.cols, int):
                return inner(ex, SeqV.of("list", [v.fn(i, j) for i in range(v.rows) for j in range(v.cols)]))
            i, j = z3.Int(ex.p.fresh_name("qi")), z3.Int(ex.p.fresh_name("qj"))
            e = zbool(ops.truthy(ex, v.fn(i, j)))
            rng = z3.And(i >= 0, i < term(v.rows, "int"), j >= 0, j < term(v.cols, "int"))
            return mk_bool(z3.ForAll([i, j], z3.Implies(rng, e)) if which == "all" else z3.Exists([i, j], z3.And(rng, e)))
        return inner(ex, v)

    return f


def np_unique(ex, v):
    """numpy.unique of an array of concrete shape whose entries compare concretely: sorted distinct entries"""
    if isinstance(v, Arr2V) and isinstance(v.rows, int) and isinstance(v.cols, int):
        items = [v.fn(i, j) for i in range(v.rows) for j in range(v.cols)]
    elif isinstance(v, SeqV) and v.is_concrete_len():
        items = v.concrete_items()
    else:
        raise Unsupported("numpy.unique of an array of symbolic shape")
    def _plain_well(x):
        if isinstance(x, WellV) and not (isinstance(x.r, int) and isinstance(x.c, int)):
            r, c = (z3.simplify(t) if z3.is_expr(t) else t for t in (x.r, x.c))
            if all(isinstance(t, int) or z3.is_int_value(t) for t in (r, c)):
                return WellV(*(t if isinstance(t, int) else t.as_long() for t in (r, c)))
        return x

    items = ops.dedupe(ex, [_plain_well(x) for x in items])
    if all(isinstance(x, WellV) and isinstance(x.r, int) and isinstance(x.c, int) for x in items):
        items.sort(key=lambda w: "ABCDEFGHIJKLMNOPQRSTUVWXYZ"[w.r] + f"{w.c:02d}")
    elif all(isinstance(x, (int, str)) and not isinstance(x, bool) for x in items):
        items.sort()
    elif len(items) > 1:
        raise Unsupported("numpy.unique: order of symbolic entries")
    return SeqV.of("array", items)


def np_round(ex, x, decimals=0):
    if isinstance(x, SeqV) or isinstance(x, Arr2V):
        return ops.seq_map(ex, x, lambda e: np_round(ex, e, decimals), "array" if isinstance(x, SeqV) else None)
    if isinstance(x, Arr0V):
        return np_round(ex, x.v, decimals)
    if not has_sym(x) and not isinstance(x, EnumV):
        import numpy

        if isinstance(x, (Fraction,)) and not isinstance(x, int):
            return FloatQ(Fraction(float(numpy.round(float(x), decimals))))
        if isinstance(x, float) and ops.special_float(x):
            return x
        if isinstance(x, bool):
            return x
        return int(numpy.round(x, decimals)) if isinstance(x, int) else FloatQ(Fraction(float(numpy.round(x, decimals))))
    if num_kind(x) == "int":
        return x
    return round_real(ex, x, decimals)


def np_shape(ex, v):
    if isinstance(v, SeqV):
        n = ops.seq_len(v)
        # nested?
        if isinstance(n, int) and n > 0 and isinstance(ops.seq_get(ex, v, 0), SeqV):
            a = np_array(ex, v)
            return SeqV.of("tuple", [a.rows, a.cols])
        return SeqV.of("tuple", [n if isinstance(n, int) else Sym(n, "int")])
    if isinstance(v, Arr2V):
        return SeqV.of("tuple", [_symint(v.rows), _symint(v.cols)])
    if isinstance(v, Arr0V) or num_kind(v) or v is None or isinstance(v, (str, Sym)):
        return SeqV.of("tuple", [])
    raise Unsupported("numpy.shape")


def _symint(x):
    return x if isinstance(x, int) else Sym(term(x, "int"), "int")


def np_zeros(ex, shape, dtype=None):
    items = ops.iter_concrete(ex, shape) if isinstance(shape, SeqV) else [shape]
    z = FloatQ(0)
    if len(items) == 2:
        return Arr2V(_dim(items[0]), _dim(items[1]), lambda i, j: z, "float")
    if len(items) == 1:
        n = _dim(items[0])
        return SeqV("array", [Blk(n, lambda i: z)] if not isinstance(n, int) else [Lit([z] * n)], "float")
    raise Unsupported("numpy.zeros shape")


def _dim(x):
    if isinstance(x, bool):
        raise Unsupported("bool as array dimension")
    if isinstance(x, int):
        return x
    if isinstance(x, Sym) and x.ty == "int":
        return x.t
    raise Unsupported("array dimension")


def np_zeros_like(ex, a, dtype=None):
    z = FloatQ(0)
    if isinstance(a, Arr2V):
        return Arr2V(a.rows, a.cols, lambda i, j: z, "float")
    if isinstance(a, SeqV):
        n = ops.seq_len(a)
        return SeqV("array", [Lit([z] * n)] if isinstance(n, int) else [Blk(n, lambda i: z)], "float")
    raise Unsupported("zeros_like")


def np_full(ex, shape, value, dtype=None):
    items = ops.iter_concrete(ex, shape)
    if isinstance(value, Arr0V):
        value = value.v
    if len(items) == 2:
        return Arr2V(_dim(items[0]), _dim(items[1]), lambda i, j: value)
    raise Unsupported("numpy.full shape")



def np_linspace(ex, a, b, n):
    """numpy.linspace(a, b, n) for a concrete int n: a + i*(b-a)/(n-1) (n > 1), [a] (n == 1), [] (n == 0)"""
    if isinstance(a, Arr0V):
        a = a.v
    if isinstance(b, Arr0V):
        b = b.v
    if not isinstance(n, int) or isinstance(n, bool):
        raise Unsupported("numpy.linspace with a symbolic or non-int count")
    if n < 0:
        ops._raise("ValueError")
    used("numpy.linspace(a, b, n)[i] == a + i*(b - a)/(n - 1) (real arithmetic)")
    if n == 1:
        return SeqV.of("array", [ops.binop(ex, "*", a, FloatQ(1))])
    step = ops.binop(ex, "/", ops.binop(ex, "-", b, a), n - 1) if n > 1 else None
    return SeqV.of("array", [ops.binop(ex, "+", a, ops.binop(ex, "*", i, step)) for i in range(n)])


_EXP = z3.Function("np_exp", z3.RealSort(), z3.RealSort())
_LOG = z3.Function("np_log", z3.RealSort(), z3.RealSort())


def np_explog(which):
    fn = _EXP if which == "exp" else _LOG

    def f(ex, x):
        if isinstance(x, SeqV):
            return ops.seq_map(ex, x, lambda e: f(ex, e), "array")
        if isinstance(x, Arr0V):
            x = x.v
        if isinstance(x, float) and ops.special_float(x):
            raise Unsupported(f"numpy.{which} of nan/inf")
        used(f"numpy.{which}: uninterpreted real function (only functional consistency is assumed)")
        return Sym(fn(term(x, "real")), "real")

    return f


def np_minmax(which):
    inner = b_minmax(which)

    def f(ex, v, **kw):
        if kw:
            raise Unsupported(f"numpy.{which} with keywords")
        if isinstance(v, Arr0V):
            return v.v
        if isinstance(v, Arr2V) and isinstance(v.rows, int) and isinstance(v.cols, int):
            v = SeqV.of("list", [v.fn(i, j) for i in range(v.rows) for j in range(v.cols)])
        if isinstance(v, SeqV) and v.is_concrete_len():
            flat = []
            for e in v.concrete_items():
                if isinstance(e, SeqV):
                    flat.extend(e.concrete_items())
                else:
                    flat.append(e)
            if not flat:
                ops._raise("ValueError")
            return inner(ex, SeqV.of("list", flat))
        raise Unsupported(f"numpy.{which} of this value")

    return f


_RNG_PERM = z3.Function("rng_perm", z3.IntSort(), z3.IntSort(), z3.IntSort(), z3.IntSort(), z3.IntSort())


def rng_state(ex, seed=None):
    if seed is None or not (isinstance(seed, int) or (isinstance(seed, Sym) and seed.ty == "int")):
        raise Unsupported("numpy.random.RandomState without an integer seed")
    used("numpy.random.RandomState(seed).permutation(x): the k-th call returns x rearranged by a permutation that is a function "
         "of (seed, k, len(x)) only; which permutation is not specified")
    return Obj("RandomState", {"seed": seed, "calls": 0})


def rng_permutation(ex, rng, x):
    """a fresh array with the elements of the 1-D sequence x rearranged by rng_perm(seed, call number, n, .), an arbitrary
    but fixed bijection of range(n)"""
    if isinstance(x, Arr2V) or not isinstance(x, SeqV) or not x.is_concrete_len():
        raise Unsupported("RandomState.permutation of this value")
    items = [ops.to_abstract(e) for e in x.concrete_items()]
    n = len(items)
    k = rng.fields["calls"]
    rng.fields["calls"] = k + 1
    seed = term(rng.fields["seed"], "int")
    idx = [_RNG_PERM(seed, z3.IntVal(k), z3.IntVal(n), z3.IntVal(i)) for i in range(n)]
    for i in range(n):
        ex.p.assume(z3.And(idx[i] >= 0, idx[i] < n))
    if n > 1:
        ex.p.assume(z3.Distinct(*idx))
    out = []
    for i in range(n):
        if all(isinstance(e, WellV) for e in items):
            r, c = term(items[-1].r, "int"), term(items[-1].c, "int")
            for j in range(n - 2, -1, -1):
                r = z3.If(idx[i] == j, term(items[j].r, "int"), r)
                c = z3.If(idx[i] == j, term(items[j].c, "int"), c)
            out.append(WellV(z3.simplify(r), z3.simplify(c)))
        elif n == 1:
            out.append(items[0])
        else:
            raise Unsupported("RandomState.permutation of elements other than well ids")
    return SeqV.of("array", out)

BUILTINS = {
    "len": b_len,
    "max": b_minmax("max"),
    "min": b_minmax("min"),
    "sum": lambda ex, v, start=0: builtin_sum(ex, v, start),
    "abs": b_abs,
    "all": b_all_any("all"),
    "any": b_all_any("any"),
    "range": b_range,
    "zip": b_zip,
    "enumerate": b_enumerate,
    "map": b_map,
    "sorted": b_sorted,
    "list": b_list,
    "tuple": b_tuple,
    "set": b_set,
    "dict": b_dict,
    "float": b_float,
    "int": b_int,
    "str": b_str,
    "bool": b_bool,
    "isinstance": b_isinstance,
    "round": b_round,
    "chr": b_chr,
    "ord": b_ord,
    "callable": b_callable,
    "math.ceil": math_ceil_floor("ceil"),
    "math.floor": math_ceil_floor("floor"),
    "numpy.ceil": lambda ex, x: _np_ceil(ex, x),
    "numpy.isnan": np_isnan,
    "numpy.isfinite": np_isfinite,
    "numpy.array": np_array,
    "numpy.asarray": lambda ex, v, dtype=None, **kw: (v if ((isinstance(v, SeqV) and v.kind == "array") or isinstance(v, Arr2V)) else np_array(ex, v, dtype, **kw)),
    "numpy.atleast_1d": np_atleast_1d,
    "numpy.repeat": np_repeat,
    "numpy.sum": np_sum,
    "numpy.all": np_all_any("all"),
    "numpy.any": np_all_any("any"),
    "numpy.unique": np_unique,
    "numpy.ndenumerate": lambda ex, a: NdEnumV(a),
    "numpy.round": np_round,
    "numpy.shape": np_shape,
    "numpy.zeros": np_zeros,
    "numpy.zeros_like": np_zeros_like,
    "numpy.full": np_full,
    "numpy.linspace": np_linspace,
    "numpy.random.RandomState": rng_state,
    "numpy.exp": np_explog("exp"),
    "numpy.log": np_explog("log"),
    "numpy.min": np_minmax("min"),
    "numpy.max": np_minmax("max"),
    "re.compile": lambda ex, pattern, *a: RegexV(pattern),
    "collections.defaultdict": lambda ex, factory=None: _defaultdict(ex, factory),
    "numpy.argsort": lambda ex, v, **kw: np_argsort(ex, v),
    "open": lambda ex, *a, **k: b_open(ex, *a, **k),
    "pathlib.Path": lambda ex, *a, **k: make_path(ex, *a, **k),
}


def _np_ceil(ex, x):
    if isinstance(x, SeqV):
        return ops.seq_map(ex, x, lambda e: _np_ceil(ex, e), "array")
    r = math_ceil_floor("ceil")(ex, x)
    return ops.binop(ex, "*", r, FloatQ(1)) if isinstance(r, int) else Sym(term(r, "real"), "real")


# ----------------------------------------------------------------------------- methods on values


def call_method(ex, recv, name, args, kw):
    if isinstance(recv, SeqV):
        return seq_method(ex, recv, name, args, kw)
    if isinstance(recv, Arr2V):
        return arr2_method(ex, recv, name, args, kw)
    if isinstance(recv, Arr0V):
        if name in ("flatten", "ravel"):
            return flatten(ex, recv, *(args or [kw.get("order", "C")]))
        if name == "shape":
            return SeqV.of("tuple", [])
    if isinstance(recv, MapV):
        return map_method(ex, recv, name, args, kw)
    if isinstance(recv, (str, Sym, WellV, RowLetterV, ColDigitsV)):
        return str_method(ex, recv, name, args, kw)
    if isinstance(recv, SetV):
        if name == "difference":
            other = args[0]
            oi = other.items if isinstance(other, SetV) else ops.iter_concrete(ex, other)
            return SetV([x for x in recv.items if not any(ops.eq_concrete(ex, x, y) for y in oi)])
        if name == "add":
            if not any(ops.eq_concrete(ex, x, args[0]) for x in recv.items):
                recv.items.append(args[0])
            return None
    if isinstance(recv, RegexV):
        return regex_method(ex, recv, name, args, kw)
    if isinstance(recv, MatchV):
        if name == "group":
            return recv.groups[args[0]]
    if isinstance(recv, RangeSetV) and name == "difference":
        return RangeDiffV(recv.lo, recv.hi, args[0])
    if isinstance(recv, SymSetV) and name == "difference" and isinstance(args[0], RangeSetV):
        return OutsideV(recv.seq, args[0].lo, args[0].hi)
    if isinstance(recv, SetV) and name == "difference" and isinstance(args[0], RangeSetV):
        return OutsideV(SeqV.of("list", recv.items), args[0].lo, args[0].hi)
    r = method_special(ex, recv, name, args, kw)
    if r is not NOATTR:
        return r
    raise Unsupported(f"method {name} on {type(recv).__name__}")


class OutsideV:
    """set(xs).difference(set(range(lo, hi))) for symbolic xs: the members of xs outside [lo, hi)."""

    def __init__(self, seq, lo, hi):
        self.seq, self.lo, self.hi = seq, lo, hi


class RangeDiffV:
    """set(range(lo, hi)).difference(xs) for symbolic bounds."""

    def __init__(self, lo, hi, xs):
        self.lo, self.hi, self.xs = lo, hi, xs


def method_special(ex, recv, name, args, kw):
    if isinstance(recv, FileV) and name == "write":
        io_log(ex).append(("write", recv, args[0]))
        return None
    if isinstance(recv, Obj) and recv.cls == "RandomState":
        if name == "permutation" and len(args) == 1 and not kw:
            return rng_permutation(ex, recv, args[0])
        raise Unsupported(f"RandomState.{name}")
    if isinstance(recv, Obj) and recv.cls == "Path":
        if name == "unlink":
            io_log(ex).append(("unlink", recv, kw.get("missing_ok", False)))
            return None
    return NOATTR


def seq_method(ex, v: SeqV, name, args, kw):
    if name == "append":
        v.segs = v.segs + [Lit([args[0]])]
        return None
    if name == "extend":
        ops.list_extend(ex, v, args[0])
        return None
    if name in ("flatten", "ravel"):
        order = args[0] if args else kw.get("order", "C")
        return flatten(ex, v, order)
    if name == "copy":
        return v.copy()
    if name == "clear":
        v.segs = []
        return None
    if name == "astype":
        if kw.get("copy") is False:
            return v
        return v.copy()
    if name == "tolist":
        used("ndarray.tolist(): same elements as a list")
        return v.copy("list")
    if name == "pop":
        if len(args) == 1 and args[0] == 0 and v.segs and isinstance(v.segs[0], Lit) and v.segs[0].items:
            first = v.segs[0].items[0]
            v.segs = [Lit(v.segs[0].items[1:])] + v.segs[1:]
            return first
        if not args and v.is_concrete_len():
            items = v.concrete_items()
            if not items:
                _raise("IndexError", "pop from empty list")
            v.segs = [Lit(items[:-1])]
            return items[-1]
        if len(args) == 1 and args[0] == 0:
            n = ops.seq_len(v)
            if isinstance(n, int) and n == 0:
                _raise("IndexError", "pop from empty list")
            raise Unsupported("pop(0) from a symbolic list")
        raise Unsupported("list.pop form")
    if name == "index":
        items = v
        target = args[0]
        if v.is_concrete_len():
            for i, x in enumerate(v.concrete_items()):
                e = ops.equals(ex, x, target)
                if isinstance(e, bool):
                    if e:
                        return i
                elif ex.p.branch(unwrap_bool(e), "index()"):
                    return i
            _raise("ValueError", "x not in list")
        return seq_index_symbolic(ex, v, target)
    if name == "reshape":
        return reshape(ex, v, args, kw)
    if name == "sum":
        return np_sum(ex, v)
    if name == "shape":
        raise Unsupported("shape as method")
    if name == "count":
        items = v.concrete_items()
        acc = 0
        for x in items:
            e = ops.equals(ex, x, args[0])
            acc = ops.binop(ex, "+", acc, ops.ite(ex, unwrap_bool(e), 1, 0) if not isinstance(e, bool) else int(e))
        return acc
    raise Unsupported(f"sequence method {name}")


def seq_index_symbolic(ex, v: SeqV, target):
    """list.index over a symbolic-length list whose elements are an injective function of the index
    (row_ids / column_ids): result i with v[i] == target, else ValueError."""
    n = ops.seq_len(v)
    i = ex.p.fresh("idx", "int")
    e = ops.equals(ex, ops.seq_get(ex, v, i), target)
    j = z3.Int(ex.p.fresh_name("j"))
    ej = ops.equals(ex, ops.seq_get(ex, v, Sym(j, "int")), target)
    exists = z3.Exists([j], z3.And(j >= 0, j < term(n, "int"), zbool(unwrap_bool(ej))))
    used("list.index(x): the first position holding x, ValueError if absent")
    if ex.p.branch(exists, "index()"):
        k = z3.Int(ex.p.fresh_name("k"))
        ek = ops.equals(ex, ops.seq_get(ex, v, Sym(k, "int")), target)
        ex.p.assume(z3.And(i.t >= 0, i.t < term(n, "int"), zbool(unwrap_bool(e)),
                           z3.ForAll([k], z3.Implies(z3.And(k >= 0, k < i.t), z3.Not(zbool(unwrap_bool(ek)))))))
        return i
    _raise("ValueError", "x not in list")


def reshape(ex, v, args, kw):
    shape = args[0] if len(args) == 1 and isinstance(args[0], SeqV) else SeqV.of("tuple", list(args))
    dims = shape.concrete_items()
    order = kw.get("order", "C")
    if len(dims) == 2:
        R, Cn = _dim_any(dims[0]), _dim_any(dims[1])
        if isinstance(v, Arr2V) and order == "C" and ops._same_dim(ex, R, v.rows) and ops._same_dim(ex, Cn, v.cols):
            used("ndarray.reshape to the array's own shape: a view of the same buffer (modelled as the same array object)")
            return v
        if isinstance(v, Arr2V):
            flat = flatten(ex, v, "C")
        elif isinstance(v, Arr0V):
            flat = SeqV.of("array", [v.v])
        else:
            flat = v.copy()
        n = ops.seq_len(flat)
        sz = ops.binop(ex, "*", _symint(R), _symint(Cn))
        ok = ops.compare(ex, "==", n if isinstance(n, int) else Sym(n, "int"), sz)
        if not ex.test(ok, "reshape-size"):
            _raise("ValueError", "cannot reshape array")
        used("ndarray.reshape((r, c)): row-major, ValueError on size mismatch; order='F' column-major")
        if order == "F":
            return Arr2V(R, Cn, lambda i, j: ops.seq_get(ex, flat, ops.binop(ex, "+", ops.binop(ex, "*", _ix2(j), _symint(R)), _ix2(i))))
        return Arr2V(R, Cn, lambda i, j: ops.seq_get(ex, flat, ops.binop(ex, "+", ops.binop(ex, "*", _ix2(i), _symint(Cn)), _ix2(j))))
    if len(dims) == 1 or len(dims) == 0:
        if isinstance(v, SeqV):
            n = ops.seq_len(v)
            if len(dims) == 1:
                ok = ops.compare(ex, "==", n if isinstance(n, int) else Sym(n, "int"), dims[0])
                if not ex.test(ok, "reshape-size"):
                    _raise("ValueError", "cannot reshape array")
                return v.copy("array")
            ok = ops.compare(ex, "==", n if isinstance(n, int) else Sym(n, "int"), 1)
            if not ex.test(ok, "reshape-size"):
                _raise("ValueError", "cannot reshape array")
            return Arr0V(ops.seq_get(ex, v, 0))
    raise Unsupported("reshape form")


def _ix2(i):
    if isinstance(i, (int, Sym)):
        return i
    return Sym(i, "int")


def _dim_any(x):
    if isinstance(x, EnumV):
        x = x.value
    return _dim(x)


def arr2_method(ex, a: Arr2V, name, args, kw):
    if name in ("flatten", "ravel"):
        order = args[0] if args else kw.get("order", "C")
        return flatten(ex, a, order)
    if name == "astype" and kw.get("copy") is False:
        used("ndarray.astype(t, copy=False): may return the array itself (pessimistic: it does)")
        return a
    if name in ("copy", "astype"):
        return a.copy()
    if name == "reshape":
        return reshape(ex, a, args, kw)
    if name == "tolist":
        raise Unsupported("2-D tolist")
    raise Unsupported(f"array method {name}")


def arr2_getitem(ex, a: Arr2V, idx):
    if isinstance(idx, SeqV) and idx.kind == "tuple":
        items = idx.concrete_items()
        if len(items) == 2:
            i, j = items
            src = a.copy()
            if isinstance(i, SliceV) and isinstance(j, SliceV):
                raise Unsupported("2-D slice/slice")
            if isinstance(i, SliceV):
                lo, hi = _slice_bounds(ex, i, src.rows)
                jj = _idx_checked(ex, j, src.cols)
                n = ops.binop(ex, "-", hi, lo)
                if isinstance(n, int):
                    return SeqV.of("array", [src.fn(_plain(ops.binop(ex, "+", lo, k)), _plain(jj)) for k in range(n)])
                return SeqV("array", [Blk(term(n, "int"), lambda k: src.fn(_plain(ops.binop(ex, "+", lo, _ix2(k))), _plain(jj)))])
            if isinstance(j, SliceV):
                if isinstance(i, SeqV):  # a[[0], :]
                    rows = i.concrete_items()
                    lo, hi = _slice_bounds(ex, j, src.cols)
                    if lo != 0 or not ops._same_dim(ex, _plain(hi), src.cols):
                        raise Unsupported("partial column slice")
                    rr = [_plain(_idx_checked(ex, r, src.rows)) for r in rows]
                    return Arr2V(len(rr), src.cols, lambda p, q: src.fn(_pick(rr, p), q))
                ii = _idx_checked(ex, i, src.rows)
                lo, hi = _slice_bounds(ex, j, src.cols)
                n = ops.binop(ex, "-", hi, lo)
                if isinstance(n, int):
                    return SeqV.of("array", [src.fn(_plain(ii), _plain(ops.binop(ex, "+", lo, k))) for k in range(n)])
                return SeqV("array", [Blk(term(n, "int"), lambda k: src.fn(_plain(ii), _plain(ops.binop(ex, "+", lo, _ix2(k)))))])
            ii = _idx_checked(ex, i, src.rows)
            jj = _idx_checked(ex, j, src.cols)
            return src.fn(_plain(ii), _plain(jj))
    if isinstance(idx, SliceV):
        raise Unsupported("row slice of 2-D array")
    if isinstance(idx, SeqV):
        raise Unsupported("fancy index of 2-D array")
    ii = _idx_checked(ex, idx, a.rows)
    src = a.copy()
    return SeqV("array", [Blk(src.cols, lambda j: src.fn(_plain(ii), j))] if not isinstance(src.cols, int) else [Lit([src.fn(_plain(ii), j) for j in range(src.cols)])])


def _pick(rr, p):
    if isinstance(p, int):
        return rr[p]
    s = z3.simplify(term(p, "int"))
    if z3.is_int_value(s):
        return rr[s.as_long()]
    if len(rr) == 1:
        return rr[0]
    raise Unsupported("symbolic pick")


def _plain(x):
    if isinstance(x, Sym):
        return x.t
    return x


def _slice_bounds(ex, sl: SliceV, n):
    if sl.step is not None:
        raise Unsupported("slice step")
    dummy = SeqV("list", [Blk(n, lambda i: 0)] if not isinstance(n, int) else [Lit([0] * n)])
    nn = ops.seq_len(dummy)

    def norm(b, default):
        if b is None:
            return default
        if isinstance(b, EnumV):
            b = b.value
        if isinstance(b, int) and isinstance(nn, int):
            if b < 0:
                b = max(nn + b, 0)
            return min(b, nn)
        if num_kind(b) != "int":
            _raise("TypeError", "slice indices must be integers")
        bt, nt = term(b, "int"), term(nn, "int")
        return mk_num(z3.If(bt < 0, z3.If(nt + bt < 0, 0, nt + bt), z3.If(bt > nt, nt, bt)), "int")

    return norm(sl.lo, 0), norm(sl.hi, nn if isinstance(nn, int) else Sym(nn, "int"))


def _idx_checked(ex, i, n):
    if isinstance(i, EnumV):
        i = i.value
    if isinstance(i, bool):
        i = int(i)
    if isinstance(i, int) and isinstance(n, int):
        if not (-n <= i < n):
            _raise("IndexError")
        return i % n
    if num_kind(i) != "int":
        _raise("IndexError", "only integers, slices ... are valid indices")
    it = term(i, "int")
    if isinstance(i, int) and i < 0:
        nt = term(n, "int")
        if not ex.test(mk_bool(nt >= -i), "index2"):
            _raise("IndexError")
        return mk_num(nt + i, "int")
    if ex.pure == 0:
        if ex.p.branch(it < 0, "negindex"):
            nt = term(n, "int")
            if not ex.p.branch(it >= -nt, "index2"):
                _raise("IndexError")
            return mk_num(it + nt, "int")  # numpy (like Python) counts negative indices from the end
        if not ex.p.branch(it < term(n, "int"), "index2"):
            _raise("IndexError")
    return i


def arr2_setitem(ex, a: Arr2V, idx, v):
    if isinstance(idx, SeqV) and idx.kind == "tuple":
        items = idx.concrete_items()
        if len(items) == 2 and not any(isinstance(x, SliceV) for x in items):
            i = _idx_checked(ex, items[0], a.rows)
            j = _idx_checked(ex, items[1], a.cols)
            it, jt = term(i, "int"), term(j, "int")
            old = a.fn

            def fn(p, q, old=old):
                c = z3.simplify(z3.And(term(p, "int") == it, term(q, "int") == jt))
                if z3.is_true(c):
                    return v
                if z3.is_false(c):
                    return old(p, q)
                return ops.ite(ex, c, v, old(p, q))

            a.fn = fn
            return
    raise Unsupported("array item assignment form")


def fancy_index(ex, v: SeqV, idx: SeqV):
    used("ndarray[index array]: out[i] = a[idx[i]]")
    src = v.copy()
    n = ops.seq_len(idx)
    ic = idx.copy()
    if isinstance(n, int):
        return SeqV.of("array", [ops.seq_get(ex, src, ops.seq_get(ex, ic, i)) for i in range(n)])
    return SeqV("array", [Blk(n, lambda i: ops.seq_get(ex, src, ops.seq_get(ex, ic, ops._ix(i))))])


def getitem_special(ex, v, idx):
    if isinstance(v, RangeDiffV):
        return ops.getitem(ex, range_diff_list(ex, v), idx)
    if isinstance(v, RowPrefix):
        raise Unsupported("subscript of row prefix")
    if isinstance(v, Obj) and "__records__" in v.fields:
        return ops.getitem(ex, v.fields["__records__"], idx)
    return NOATTR


def map_method(ex, m: MapV, name, args, kw):
    if name == "get":
        default = args[1] if len(args) > 1 else None
        return ops.map_get(ex, m, args[0], default)
    if name == "items":
        return ItemsV(m)
    if name == "keys":
        if m.is_concrete():
            return SeqV.of("list", [k for k, _ in m.items])
        if m.keyseq is not None:
            return m.keyseq
        raise Unsupported("keys of functional map")
    if name == "values":
        if m.is_concrete():
            return SeqV.of("list", [v for _, v in m.items])
    raise Unsupported(f"dict method {name}")


def str_method(ex, s, name, args, kw):
    if isinstance(s, str) and all(isinstance(a, (str, int)) for a in args) and not kw:
        if name in ("lower", "upper", "strip", "split", "startswith", "endswith", "join", "isdigit", "format", "replace"):
            if name == "split":
                return SeqV.of("list", s.split(*args))
            if name == "join":
                raise Unsupported("join of non-sequence")
            return getattr(s, name)(*args)
    if name == "join" and isinstance(s, str):
        a0 = args[0]
        if isinstance(a0, Obj) and "__records__" in a0.fields:
            a0 = a0.fields["__records__"]
        if isinstance(a0, SeqV) and not a0.is_concrete_len():
            used("str.join over a list: kept structured (separator, parts)")
            return JoinV(s, a0.copy())
        items = ops.iter_concrete(ex, a0)
        parts = []
        for i, it in enumerate(items):
            if i:
                parts.append(s)
            if not (isinstance(it, (str, WellV)) or (isinstance(it, Sym) and it.ty == "str")):
                _raise("TypeError", "sequence item: expected str instance")
            parts.append(it)
        return join_str_parts(ex, parts)
    if isinstance(s, Sym) and s.ty == "str":
        if name == "strip" and not args:
            used("str.strip(): a substring of the original (no new characters), empty iff the original is all whitespace")
            f = z3.Function("str_strip", z3.StringSort(), z3.StringSort())
            r = f(s.t)
            ex.p.assume(z3.And(z3.Contains(s.t, r), z3.Length(r) <= z3.Length(s.t)))
            return Sym(r, "str")
        if name == "split" and len(args) == 1 and args[0] == "\n":
            return split_lines(ex, s)
        if name == "lower":
            used("str.lower(): uninterpreted function of the string")
            return Sym(STRLOWER(s.t), "str")
        if name == "endswith" and isinstance(args[0], str):
            return mk_bool(z3.SuffixOf(z3.StringVal(args[0]), s.t))
        if name == "startswith" and isinstance(args[0], str):
            return mk_bool(z3.PrefixOf(z3.StringVal(args[0]), s.t))
    raise Unsupported(f"str method {name} on {type(s).__name__}")


# ----------------------------------------------------------------------------- regex (well ids only)


class RegexV:
    def __init__(self, pattern):
        self.pattern = pattern


class MatchV:
    def __init__(self, groups):
        self.groups = groups


WELL_RE = r"^([a-zA-Z]+?)(\d+?)$"


def split_lines(ex, s):
    """s.split("\\n") for a string built as a ++ "\\n" ++ b ++ ... from pieces that provably contain no "\\n"."""
    t = s.t
    pieces = []
    if z3.is_app(t) and t.decl().kind() == z3.Z3_OP_SEQ_CONCAT:
        flat = []

        def fl(x):
            if z3.is_app(x) and x.decl().kind() == z3.Z3_OP_SEQ_CONCAT:
                for c in x.children():
                    fl(c)
            else:
                flat.append(x)

        fl(t)
    else:
        flat = [t]
    cur = []
    groups = []
    for x in flat:
        if z3.is_string_value(x) and x.as_string() == "\n":
            groups.append(cur)
            cur = []
        else:
            cur.append(x)
    groups.append(cur)
    nl = z3.StringVal("\n")
    for g in groups:
        for x in g:
            ex.p.solver.push()
            ex.p.solver.add(z3.Contains(x, nl))
            r = ex.p.solver.check()
            ex.p.solver.pop()
            if r != z3.unsat:
                raise Unsupported("str.split('\\n') of a string that may contain further line breaks")
    used("str.split('\\n') of newline-free pieces joined by '\\n': the pieces")
    out = []
    for g in groups:
        if not g:
            out.append("")
        elif len(g) == 1:
            out.append(Sym(g[0], "str"))
        else:
            out.append(Sym(z3.Concat(*g), "str"))
    return SeqV.of("list", out)


def regex_method(ex, rx: RegexV, name, args, kw):
    if name == "match" and rx.pattern == WELL_RE:
        s = ops.to_abstract(args[0])
        if isinstance(s, WellV):
            used("re '^([a-zA-Z]+?)(\\d+?)$' on a well id: group(1) = row letters, group(2) = column digits")
            return MatchV({0: s, 1: RowLetterV(s.r), 2: ColDigitsV(s.c)})
        if isinstance(s, str):
            import re

            m = re.match(rx.pattern, s)
            if m is None:
                return None
            return MatchV({0: s, 1: m.group(1), 2: m.group(2)})
        if isinstance(s, Opaque) and "str" in s.types:
            used("re match on an arbitrary string: either no match or (letters, digits)")
            if ex.p.choose(2, "regex") == 0:
                return None
            return MatchV({0: s, 1: Opaque("letters", ["str"]), 2: Opaque("digits", ["str"])})
        if s is None or num_kind(s):
            _raise("TypeError", "expected string or bytes-like object")
    raise Unsupported(f"regex {rx.pattern!r}.{name}")


# ----------------------------------------------------------------------------- objects of library classes


def _defaultdict(ex, factory):
    m = MapV(items=[])
    m.default_factory = factory
    used("collections.defaultdict: missing keys are created by the factory on lookup")
    return m


def np_argsort(ex, v):
    """numpy.argsort of a short sequence: the index permutation that sorts it (ties keep their order for n <= 2;
    for longer inputs stability is not assumed: equal keys are explored in both orders)"""
    if isinstance(v, Arr0V):
        return SeqV.of("array", [0])
    items = ops.iter_concrete(ex, v)
    n = len(items)
    if n > 4:
        raise Unsupported("argsort of more than 4 elements")
    used("numpy.argsort: a permutation p with x[p[i]] <= x[p[i+1]]")
    order = list(range(n))
    # insertion sort, branching on the comparisons (each path gets a concrete permutation)
    for i in range(1, n):
        j = i
        while j > 0:
            a, b = items[order[j - 1]], items[order[j]]
            c = ops.compare(ex, ">", a, b)
            gt = c if isinstance(c, bool) else ex.p.branch(unwrap_bool(c), "argsort")
            if gt:
                order[j - 1], order[j] = order[j], order[j - 1]
                j -= 1
            else:
                break
    return SeqV.of("array", order)


class SuperV:
    def __init__(self, obj, cls, mi):
        self.obj, self.cls, self.mi = obj, cls, mi


def value_attr(ex, v, attr):
    """attributes (not methods) of modelled library values"""
    from .engine import BoundV, ClassV, HostFn

    if isinstance(v, SuperV):
        cv = v.obj.fields.get("__class__") if isinstance(v.obj, Obj) else None
        if not isinstance(cv, ClassV):
            raise Unsupported("super() outside a method of a repo class")
        mro = ex.class_mro(cv)
        names = [c.name if isinstance(c, ClassV) else c for c in mro]
        start = names.index(v.cls) + 1 if v.cls in names else len(mro)
        for c in mro[start:]:
            if isinstance(c, ClassV):
                qn = f"{c.name}.{attr}"
                if qn in c.mi.functions:
                    from .engine import FuncV

                    return BoundV(v.obj, FuncV(c.mi, qn, c.mi.functions[qn], c.name))
        if attr == "__init__":
            ex.w.dropped.add("super().__init__() of object/list")
            return HostFn(lambda ex_, *a, **k: None, "object.__init__")
        raise Unsupported(f"super().{attr}")
    if attr == "shape":
        if isinstance(v, Arr0V):
            return SeqV.of("tuple", [])
        if isinstance(v, Arr2V):
            return SeqV.of("tuple", [_symint(v.rows), _symint(v.cols)])
        if isinstance(v, SeqV) and v.kind == "array":
            n = ops.seq_len(v)
            return SeqV.of("tuple", [n if isinstance(n, int) else Sym(n, "int")])
    if attr == "T":
        if isinstance(v, Arr2V):
            used("ndarray.T of a 2-D array: element (i, j) is element (j, i) of the original (a view)")
            src = v
            return Arr2V(v.cols, v.rows, lambda i, j: src.fn(j, i), v.dtype)
        if isinstance(v, (Arr0V,)) or (isinstance(v, SeqV) and v.kind == "array"):
            return v
    if attr in ("T", "size", "ndim", "dtype", "flat", "real", "imag") and (isinstance(v, (Arr2V, Arr0V)) or (isinstance(v, SeqV) and v.kind == "array")):
        raise Unsupported(f"ndarray.{attr}")
    return NOATTR


def obj_attr(ex, o: Obj, attr):
    if o.cls == "Path":
        if attr == "name":
            return Sym(PATHNAME(term(o.fields["str"])), "str")
        from .engine import LibMethod

        return LibMethod(o, attr)
    if o.cls == "RandomState":
        from .engine import LibMethod

        return LibMethod(o, attr)
    if "__records__" in o.fields and attr in ("append", "clear", "extend", "copy", "index", "pop"):
        from .engine import LibMethod

        return LibMethod(o.fields["__records__"], attr)
    return NOATTR


def obj_truth(ex, o: Obj):
    ln = obj_len(ex, o)
    if ln is not NOATTR:
        return ops.truthy(ex, ops.compare(ex, ">", ln, 0))
    return True


def obj_len(ex, o: Obj):
    if "__records__" in o.fields:
        return b_len(ex, o.fields["__records__"])
    return NOATTR


def class_attr(ex, cv, attr):
    """Enum members and class-level constants read from the real class body."""
    from .engine import Frame

    bases = []
    fr = Frame(ex, None, {})
    fr.mi = cv.mi
    for b in cv.node.bases:
        try:
            bases.append(ex.eval(b, fr))
        except Unsupported:
            pass
    is_enum = any(getattr(b, "name", "").startswith("enum.") for b in bases)
    for st in cv.node.body:
        if isinstance(st, ast.Assign):
            for t in st.targets:
                if isinstance(t, ast.Name) and t.id == attr:
                    val = ex.eval(st.value, fr)
                    if is_enum:
                        return EnumV(cv.name, val, attr)
                    return val
    fv, owner = ex.find_method(cv, attr)
    if fv is not None:
        return fv
    raise Unsupported(f"class attribute {cv.name}.{attr}")


def enum_members(ex, cv):
    out = []
    for st in cv.node.body:
        if isinstance(st, ast.Assign):
            for t in st.targets:
                if isinstance(t, ast.Name):
                    out.append(class_attr(ex, cv, t.id))
    return out


def instantiate_special(ex, cv, args, kw):
    return NOATTR


class JoinV:
    """sep.join(seq) for a sequence of symbolic length (kept structured; equal iff separator and parts are equal)"""

    def __init__(self, sep, seq):
        self.sep, self.seq = sep, seq


class FileV:
    def __init__(self, path, mode, newline, encoding):
        self.path, self.mode, self.newline, self.encoding = path, mode, newline, encoding


PATHNAME = z3.Function("path_name", z3.StringSort(), z3.StringSort())
STRLOWER = z3.Function("str_lower", z3.StringSort(), z3.StringSort())


def io_log(ex):
    return ex.p.ghost.setdefault("io", [])


def b_open(ex, path, mode="r", **kw):
    used("open(path, mode, newline=, encoding=): axiomatised file object (see DESIGN C17)")
    f = FileV(path, mode, kw.get("newline"), kw.get("encoding"))
    io_log(ex).append(("open", f))
    return f


def make_path(ex, x):
    if isinstance(x, Obj) and x.cls == "Path":
        return Obj("Path", {"str": x.fields["str"]})
    if isinstance(x, str) or (isinstance(x, Sym) and x.ty == "str"):
        used("pathlib.Path(str): .name is an (uninterpreted) function of the path string")
        return Obj("Path", {"str": x})
    _raise("TypeError", "expected str, bytes or os.PathLike object")


def exec_with(ex, node, fr):
    if len(node.items) != 1:
        raise Unsupported("with statement with several items")
    item = node.items[0]
    ctx = ex.eval(item.context_expr, fr)
    if not isinstance(ctx, FileV):
        raise Unsupported("with statement over a non-file context manager")
    if item.optional_vars is not None:
        ex.assign(item.optional_vars, ctx, fr)
    try:
        ex.exec_block(node.body, fr)
    finally:
        io_log(ex).append(("close", ctx))


def dict_comprehension(ex, node, fr):
    """{k: v for ...}: concrete ranges are unrolled; symbolic ranges give a functional map with skolemised
    inverse (requires an injective key expression: checked as a VC)."""
    from .engine import Frame

    gens = node.generators
    views = []
    env = dict(fr.env)

    def mkframe(e):
        f = Frame(ex, fr.func, e)
        f.mi, f.spec_visible, f.loop_ordinal = getattr(fr, "mi", None), getattr(fr, "spec_visible", False), fr.loop_ordinal
        return f

    # try fully concrete first
    def rec(gi, e, out):
        g = gens[gi]
        n, at = ops.iter_view(ex, ex.eval(g.iter, mkframe(e)))
        if not isinstance(n, int):
            raise _Symbolic()
        for i in range(n):
            e2 = dict(e)
            f3 = mkframe(e2)
            ex.assign(g.target, at(i), f3)
            if any(not ex.test(ex.eval(c, f3), "compif") for c in g.ifs):
                continue
            if gi + 1 < len(gens):
                rec(gi + 1, e2, out)
            else:
                k = ex.eval(node.key, f3)
                v = ex.eval(node.value, f3)
                out.append((k, v))

    try:
        out = []
        rec(0, env, out)
        m = MapV(items=[])
        for k, v in out:
            ops.map_set(ex, m, k, v)
        return m
    except _Symbolic:
        pass
    if any(g.ifs for g in gens):
        raise Unsupported("filtered dict comprehension over symbolic ranges")
    # symbolic: all generators must be independent ranges
    bounds = []
    ats = []
    for g in gens:
        n, at = ops.iter_view(ex, ex.eval(g.iter, mkframe(env)))
        bounds.append(n)
        ats.append(at)

    def bind(idxs):
        e2 = dict(env)
        f3 = mkframe(e2)
        for g, at, i in zip(gens, ats, idxs):
            ex.assign(g.target, at(i), f3)
        ex.pure += 1
        try:
            return ex.eval(node.key, f3), ex.eval(node.value, f3)
        finally:
            ex.pure -= 1

    # injectivity VC
    a = [z3.Int(ex.p.fresh_name("ka")) for _ in gens]
    b = [z3.Int(ex.p.fresh_name("kb")) for _ in gens]
    ka, _ = bind([Sym(x, "int") for x in a])
    kb, _ = bind([Sym(x, "int") for x in b])
    rng = z3.And(*[z3.And(x >= 0, x < term(n, "int")) for x, n in zip(a + b, bounds + bounds)])
    same = zbool(unwrap_bool(ops.equals(ex, ka, kb)))
    ex.p.check("dictcomp-keys-injective", z3.Implies(z3.And(rng, same), z3.And(*[x == y for x, y in zip(a, b)])),
               {"kind": "welldef"})

    # closed-form inverse for well-id keys WellV(a + k1, b + k2) (the only symbolic dict keys the repo builds)
    inv = None
    if isinstance(ka, WellV) and len(gens) == 2:
        comps = [term(ka.r, "int"), term(ka.c, "int")]
        sol = {}
        for which, ct in enumerate(comps):
            for vi, x in enumerate(a):
                d = z3.simplify(ct - x)
                if z3.is_int_value(d) and vi not in sol:
                    sol[vi] = (which, d.as_long())
                    break
        if len(sol) == 2:
            inv = sol

    def invert(key):
        key = ops.to_abstract(key)
        if not isinstance(key, WellV):
            return None
        kc = [term(key.r, "int"), term(key.c, "int")]
        return [ops.lift_raw(z3.simplify(kc[inv[vi][0]] - inv[vi][1])) for vi in range(2)]

    if inv is not None:
        used("dict comprehension with well-id keys: lookup by the closed-form inverse of the key expression")

        def dom_inv(key):
            js = invert(key)
            if js is None:
                return False
            return mk_bool(z3.And(*[z3.And(term(x, "int") >= 0, term(x, "int") < term(n, "int")) for x, n in zip(js, bounds)]))

        def fn_inv(key):
            js = invert(key)
            _, vv = bind([x if isinstance(x, (int, Sym)) else Sym(x, "int") for x in js])
            return vv

        return MapV(dom=dom_inv, fn=fn_inv)

    def dom(key):
        js = [z3.Int(ex.p.fresh_name("dj")) for _ in gens]
        kk, _ = bind([Sym(x, "int") for x in js])
        e = zbool(unwrap_bool(ops.equals(ex, kk, key)))
        return mk_bool(z3.Exists(js, z3.And(*[z3.And(x >= 0, x < term(n, "int")) for x, n in zip(js, bounds)], e)))

    def fn(key):
        js = [ex.p.fresh("wj", "int") for _ in gens]
        kk, vv = bind(js)
        e = zbool(unwrap_bool(ops.equals(ex, kk, key)))
        ex.p.assume(z3.And(*[z3.And(x.t >= 0, x.t < term(n, "int")) for x, n in zip(js, bounds)], e))
        return vv

    used("dict comprehension over ranges with injective keys: lookup returns the value of the generating indices")
    return MapV(dom=dom, fn=fn)


class _Symbolic(Exception):
    pass
