"""Symbolic instances of repo classes that satisfy their representation invariant wf(L) (established by the
constructor contracts, C20).  Used as scenario parameters of the functions that take a Labware / worklist."""
from __future__ import annotations

import z3

from . import ops
from .engine import ClassV
from .ops import FloatQ, mk_bool, mk_num
from .values import Arr2V, Blk, Lit, MapV, Obj, SeqV, Sym, Unsupported, WellV, RowLetterV, term


def classv(ex, module, name):
    r = ex.w.repo.resolve_class(module, name)
    if r is None:
        raise Unsupported(f"class {module}.{name} not found")
    mi, node = r
    return ClassV(mi, node)


def _t(i):
    if isinstance(i, int):
        return z3.IntVal(i)
    if isinstance(i, Sym):
        return i.t
    return i


def _m(t):
    t = z3.simplify(t)
    return t.as_long() if z3.is_int_value(t) else t


def sym_labware(ex, tag, trough, composition="none", cls="Labware"):
    """A well-formed Labware (plate: trough=False) or trough (trough=True) with symbolic geometry, limits,
    volumes and history.  Assumes wf(L): the representation invariant proved for the constructors (C20)."""
    p = ex.p
    R = z3.Int(f"{tag}_R")  # number of row ids (virtual rows for troughs)
    C = z3.Int(f"{tag}_C")
    p.assume(z3.And(R >= 1, R <= 26, C >= 1))
    vol = z3.Function(f"{tag}_vol", z3.IntSort(), z3.IntSort(), z3.RealSort())
    minv, maxv = z3.Real(f"{tag}_min"), z3.Real(f"{tag}_max")
    p.assume(z3.And(minv >= 0, minv < maxv))
    i, j = z3.Int("wf_i"), z3.Int("wf_j")
    RR = z3.IntVal(1) if trough else R
    p.assume(z3.ForAll([i, j], z3.Implies(z3.And(i >= 0, i < RR, j >= 0, j < C), z3.And(vol(i, j) >= 0, vol(i, j) <= maxv))))
    name = Sym(z3.String(f"{tag}_name"), "str")
    o = Obj(cls, {"__class__": classv(ex, "robotools.liquidhandling.labware", "Trough" if cls == "Trough" else "Labware")})
    f = o.fields
    f["name"] = name
    f["row_ids"] = SeqV("tuple", [Blk(R, lambda k: RowLetterV(_m(_t(k))))])
    f["column_ids"] = SeqV("list", [Blk(C, lambda k: mk_num(_t(k) + 1, "int"))])
    f["min_volume"] = Sym(minv, "real")
    f["max_volume"] = Sym(maxv, "real")
    f["virtual_rows"] = Sym(R, "int") if trough else None
    f["_wells"] = Arr2V(R, C, lambda a, b: WellV(_m(_t(a)), _m(_t(b) + 1)))
    f["_volumes"] = Arr2V(_m(RR), C, lambda a, b: Sym(vol(_t(a), _t(b)), "real"), "float")

    def dom(key):
        if not isinstance(key, WellV):
            key2 = ops.to_abstract(key)
            if not isinstance(key2, WellV):
                return False
            key = key2
        return mk_bool(z3.And(term(key.r, "int") >= 0, term(key.r, "int") < R, term(key.c, "int") >= 1, term(key.c, "int") <= C))

    def idx(key):
        key = ops.to_abstract(key)
        r = 0 if trough else ops.lift_raw(_m(term(key.r, "int")))
        return SeqV.of("tuple", [r, ops.lift_raw(_m(term(key.c, "int") - 1))])

    def pos(key):
        key = ops.to_abstract(key)
        return mk_num(1 + (term(key.c, "int") - 1) * R + term(key.r, "int"), "int")

    f["_indices"] = MapV(dom=dom, fn=idx)
    f["_positions"] = MapV(dom=dom, fn=pos)
    # history: symbolic length >= 1, last entry equals the current volumes (I_hist)
    H = z3.Int(f"{tag}_H")
    p.assume(H >= 1)
    hist = z3.Function(f"{tag}_hist", z3.IntSort(), z3.IntSort(), z3.IntSort(), z3.RealSort())
    lab = z3.Function(f"{tag}_label", z3.IntSort(), z3.StringSort())
    f["_history"] = SeqV("list", [Blk(H, lambda k: Arr2V(_m(RR), C, lambda a, b, k=k: Sym(hist(_t(k), _t(a), _t(b)), "real"), "float"))])
    f["_labels"] = SeqV("list", [Blk(H, lambda k: Sym(lab(_t(k)), "str"))])
    p.assume(z3.ForAll([i, j], z3.Implies(z3.And(i >= 0, i < RR, j >= 0, j < C), hist(H - 1, i, j) == vol(i, j))))
    if composition == "none":
        f["_composition"] = None
    elif composition == "two":
        # two named components; fractions in [0,1] that add up to 1 in every non-empty real well (I_comp)
        names = [Sym(z3.String(f"{tag}_comp{k}"), "str") for k in range(2)]
        p.assume(names[0].t != names[1].t)
        fr = [z3.Function(f"{tag}_frac{k}", z3.IntSort(), z3.IntSort(), z3.RealSort()) for k in range(2)]
        p.assume(z3.ForAll([i, j], z3.Implies(z3.And(i >= 0, i < RR, j >= 0, j < C),
                                              z3.And(fr[0](i, j) >= 0, fr[1](i, j) >= 0, fr[0](i, j) <= 1, fr[1](i, j) <= 1,
                                                     z3.Implies(vol(i, j) > 0, fr[0](i, j) + fr[1](i, j) == 1)))))
        f["_composition"] = MapV(items=[(names[k], Arr2V(_m(RR), C, (lambda a, b, k=k: Sym(fr[k](_t(a), _t(b)), "real")), "float")) for k in range(2)])
    o.fields["__ghost__"] = {"R": R, "C": C, "RR": RR, "vol": vol, "min": minv, "max": maxv, "H": H, "hist": hist, "label": lab,
                             "trough": trough, "tag": tag}
    o.fields["__native__"] = lambda model, describe, o=o: describe_labware(o, model, describe)
    return o


def describe_labware(o, model, describe):
    """A python expression that builds the real object for a replay."""
    from . import prove

    g = o.fields["__ghost__"]
    R = int(prove.model_value(model, g["R"]))
    C = int(prove.model_value(model, g["C"]))
    R, C = max(1, min(R, 26)), max(1, min(C, 48))
    mn = prove.model_value(model, g["min"])
    mx = prove.model_value(model, g["max"])
    name = prove.model_value(model, term(o.fields["name"]))
    RR = 1 if g["trough"] else R
    vols = [[float(prove.model_value(model, g["vol"](z3.IntVal(a), z3.IntVal(b)))) for b in range(C)] for a in range(RR)]
    if g["trough"] and o.cls != "Trough":
        expr = f"Labware({name!r}, 1, {C}, virtual_rows={R}, min_volume={float(mn)!r}, max_volume={float(mx)!r}, initial_volumes={vols!r})"
    elif g["trough"]:
        expr = f"Trough({name!r}, {R}, {C}, min_volume={float(mn)!r}, max_volume={float(mx)!r}, initial_volumes={vols[0]!r})"
    else:
        expr = f"Labware({name!r}, {R}, {C}, min_volume={float(mn)!r}, max_volume={float(mx)!r}, initial_volumes={vols!r})"
    return {"t": "expr", "v": expr}


def sym_worklist(ex, cls="EvoWorklist", diti_mode=False, auto_split=True, max_volume="real", filepath=None, tag="wl"):
    """A worklist object whose record list is an arbitrary (symbolic) list of non-empty strings."""
    modname = {"BaseWorklist": "robotools.worklists.base", "EvoWorklist": "robotools.evotools.worklist",
               "FluentWorklist": "robotools.fluenttools.worklist"}[cls]
    o = Obj(cls, {"__class__": classv(ex, modname, cls)})
    n0 = z3.Int(f"{tag}_n0")
    rec = z3.Function(f"{tag}_rec", z3.IntSort(), z3.StringSort())
    q = z3.Int("wf_q")
    ex.p.assume(n0 >= 0)
    ex.p.assume(z3.ForAll([q], z3.Length(rec(q)) > 0))
    o.fields["__records__"] = SeqV("list", [Blk(n0, lambda i: Sym(rec(_t(i)), "str"))])
    if max_volume == "real":
        mv = Sym(z3.Real(f"{tag}_max_volume"), "real")
        ex.p.assume(mv.t > 0)
    elif max_volume == "int":
        mv = Sym(z3.Int(f"{tag}_max_volume"), "int")
        ex.p.assume(mv.t > 0)
    else:
        mv = max_volume
    o.fields["max_volume"] = mv
    o.fields["auto_split"] = auto_split
    o.fields["diti_mode"] = diti_mode
    o.fields["_filepath"] = filepath
    o.fields["__ghost__"] = {"n0": n0, "rec": rec, "cls": cls}
    o.fields["__native__"] = lambda model, describe, o=o: describe_worklist(o, model, describe)
    return o


def describe_worklist(o, model, describe):
    from . import prove

    g = o.fields["__ghost__"]
    n0 = max(0, min(int(prove.model_value(model, g["n0"])), 6))
    recs = [prove.model_value(model, g["rec"](z3.IntVal(i))) for i in range(n0)]
    mv = o.fields["max_volume"]
    mvv = prove.model_value(model, mv.t) if isinstance(mv, Sym) else mv
    mvs = repr(float(mvv)) if not isinstance(mvv, int) else repr(mvv)
    expr = f"_mk_wl({g['cls']}(max_volume={mvs}, auto_split={o.fields['auto_split']!r}, diti_mode={o.fields['diti_mode']!r}), {recs!r})"
    return {"t": "expr", "v": expr}
