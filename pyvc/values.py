"""Value model of the pyvc symbolic executor.

Concrete Python scalars (int, float, bool, str, None) are used as they are.  Everything
symbolic is wrapped.  Containers are *mutable host objects* so that Python's reference
semantics (aliasing of lists / arrays / objects) is mirrored by host references.
"""
from __future__ import annotations

import itertools
from fractions import Fraction

import z3

_ids = itertools.count()


class Unsupported(Exception):
    """The executor met a construct outside its subset: the function is UNDECIDED, never a violation."""


class Sym:
    """Symbolic scalar: ty in {'int','real','bool','str'}; `np` marks a numpy scalar (not a Python int)."""

    __slots__ = ("t", "ty", "np")

    def __init__(self, t, ty, np=False):
        self.t = t
        self.ty = ty
        self.np = np

    def __repr__(self):
        return f"Sym<{self.ty}:{self.t}>"

    def __bool__(self):
        raise Unsupported("implicit truth value of a symbolic scalar (engine bug)")


class EnumV:
    """Member of an (Int)Enum defined in the repo; value is an int or a Sym int."""

    __slots__ = ("cls", "value", "name")

    def __init__(self, cls, value, name=None):
        self.cls = cls
        self.value = value
        self.name = name

    def __repr__(self):
        return f"{self.cls}.{self.name or self.value}"


class Opaque:
    """A value about which only its (non-)membership in known types is known."""

    def __init__(self, tag, types=()):
        self.tag = tag
        self.types = tuple(types)

    def __repr__(self):
        return f"Opaque<{self.tag}>"


class Lit:
    __slots__ = ("items",)

    def __init__(self, items):
        self.items = list(items)


class Blk:
    """Block of `n` elements (n: int or z3 Int term) given by a host closure index-term -> value."""

    __slots__ = ("n", "fn", "memo")

    def __init__(self, n, fn):
        self.n = n
        self.fn = fn
        self.memo = {}

    def at(self, idx):
        """element at idx; container-valued elements are created once per (block, index term) so that reading the same
        element twice yields the same host object (identity / aliasing is then observable, in-place changes persist)"""
        key = idx if isinstance(idx, int) else (idx.sexpr() if hasattr(idx, "sexpr") else None)
        if key is not None and key in self.memo:
            return self.memo[key]
        val = self.fn(idx)
        if key is not None and isinstance(val, (Arr2V, SeqV, MapV, Obj)):
            self.memo[key] = val
        return val


class SeqV:
    """list / tuple / 1-D ndarray: concatenation of segments.  Mutable (identity = host identity)."""

    def __init__(self, kind, segs=None, dtype=None):
        self.kind = kind  # 'list' | 'tuple' | 'array'
        self.segs = list(segs or [])
        self.dtype = dtype
        self.id = next(_ids)

    @staticmethod
    def of(kind, items, dtype=None):
        return SeqV(kind, [Lit(items)] if len(items) else [], dtype)

    def is_concrete_len(self):
        return all(isinstance(s, Lit) or isinstance(s.n, int) for s in self.segs)

    def concrete_items(self):
        out = []
        for s in self.segs:
            if isinstance(s, Lit):
                out.extend(s.items)
            elif isinstance(s.n, int):
                out.extend(s.fn(i) for i in range(s.n))
            else:
                raise Unsupported("sequence of symbolic length where a concrete one is needed")
        return out

    def copy(self, kind=None):
        return SeqV(kind or self.kind, [Lit(s.items) if isinstance(s, Lit) else Blk(s.n, s.fn) for s in self.segs], self.dtype)

    def __repr__(self):
        parts = []
        for s in self.segs:
            parts.append(repr(s.items) if isinstance(s, Lit) else f"Blk({s.n})")
        return f"{self.kind}<{'+'.join(parts) or 'empty'}>"


class Arr2V:
    """2-D ndarray: shape (rows, cols) and closure (i, j) -> value.  Mutable."""

    def __init__(self, rows, cols, fn, dtype=None):
        self.rows = rows
        self.cols = cols
        self.fn = fn
        self.dtype = dtype
        self.id = next(_ids)

    def copy(self):
        return Arr2V(self.rows, self.cols, self.fn, self.dtype)

    def __repr__(self):
        return f"Arr2<{self.rows}x{self.cols}>"


class MapV:
    """dict.  Either concrete (ordered list of (key, value) with concrete-comparable keys) or functional
    (dom(key)->z3 Bool / host bool, fn(key)->value), optionally with an overlay of concrete updates."""

    def __init__(self, items=None, dom=None, fn=None, keyseq=None):
        self.items = list(items) if items is not None else None
        self.dom = dom
        self.fn = fn
        self.keyseq = keyseq  # SeqV of keys in iteration order for functional maps (if known)
        self.id = next(_ids)

    def is_concrete(self):
        return self.items is not None

    def __repr__(self):
        return f"Map<{self.items if self.items is not None else 'functional'}>"


class SetV:
    def __init__(self, items):
        self.items = list(items)

    def __repr__(self):
        return f"Set<{self.items}>"


class Obj:
    """Instance of a repo class (or a modelled library class); fields are mutable."""

    def __init__(self, cls, fields=None):
        self.cls = cls
        self.fields = dict(fields or {})
        self.id = next(_ids)

    def __repr__(self):
        return f"Obj<{self.cls}#{self.id}>"


class ExcV:
    def __init__(self, cls, args=()):
        self.cls = cls
        self.args = tuple(args)

    def __repr__(self):
        return f"Exc<{self.cls}>"


class CondV:
    """Conditional value `a if c else b` whose branches have different kinds (pure expressions only)."""

    __slots__ = ("c", "a", "b")

    def __init__(self, c, a, b):
        self.c, self.a, self.b = c, a, b

    def __repr__(self):
        return f"Cond<{self.a!r}|{self.b!r}>"


class RecV:
    """Spec-side worklist record: record type + list of field strings (joined by ';' when printed)."""

    __slots__ = ("kind", "fields", "sep", "tail")

    def __init__(self, kind, fields, sep=";", tail=None):
        self.kind = kind
        self.fields = list(fields)
        self.sep = sep
        self.tail = tail  # optional SeqV of further fields (symbolic number of them)


class WellV:
    """Abstract well-id string: single-letter row with 0-based index r (0..25), column number c >= 1
    printed with at least two digits.  r, c are ints or z3 Int terms."""

    __slots__ = ("r", "c")

    def __init__(self, r, c):
        self.r = r
        self.c = c

    def __repr__(self):
        return f"Well<{self.r},{self.c}>"


class RowLetterV:
    """The one-letter string 'ABC...'[r]."""

    __slots__ = ("r",)

    def __init__(self, r):
        self.r = r


class ColDigitsV:
    """The decimal digits of column number c as printed by {c:02d}."""

    __slots__ = ("c",)

    def __init__(self, c):
        self.c = c


# ----------------------------------------------------------------------------- z3 helpers


def is_sym(v):
    return isinstance(v, Sym)


def to_real_const(x):
    if isinstance(x, bool):
        return z3.RealVal(int(x))
    if isinstance(x, int):
        return z3.RealVal(x)
    if isinstance(x, float):
        if x != x or x in (float("inf"), float("-inf")):
            raise Unsupported("non-finite float lifted into a real term")
        return z3.RealVal(str(Fraction(x)))
    if isinstance(x, Fraction):
        return z3.RealVal(str(x))
    raise Unsupported(f"cannot lift {type(x).__name__} to real")


def term(v, want=None):
    """z3 term of a scalar value; `want` in {None,'int','real'} coerces numerics."""
    if isinstance(v, Sym):
        t = v.t
        if want == "real" and v.ty == "int":
            return z3.ToReal(t)
        if want == "real" and v.ty == "bool":
            return z3.If(t, z3.RealVal(1), z3.RealVal(0))
        if want == "int" and v.ty == "bool":
            return z3.If(t, z3.IntVal(1), z3.IntVal(0))
        return t
    if isinstance(v, EnumV):
        return term(v.value, want)
    if isinstance(v, bool):
        if want == "real":
            return z3.RealVal(int(v))
        if want == "int":
            return z3.IntVal(int(v))
        return z3.BoolVal(v)
    if isinstance(v, int):
        return z3.RealVal(v) if want == "real" else z3.IntVal(v)
    if isinstance(v, (float, Fraction)):
        return to_real_const(v)
    if isinstance(v, str):
        return z3.StringVal(v)
    if z3.is_expr(v):
        return v
    raise Unsupported(f"no z3 term for {type(v).__name__}")


def num_kind(v):
    """'int' | 'real' | None for numeric scalars (bool counts as int, as in Python)."""
    if isinstance(v, Sym):
        return {"int": "int", "bool": "int", "real": "real"}.get(v.ty)
    if isinstance(v, EnumV):
        return "int"
    if isinstance(v, bool) or isinstance(v, int):
        return "int"
    if isinstance(v, (float, Fraction)):
        return "real"
    return None


def is_concrete_scalar(v):
    return v is None or isinstance(v, (bool, int, float, str, Fraction))


def has_sym(v):
    if isinstance(v, Sym):
        return True
    if isinstance(v, EnumV):
        return isinstance(v.value, Sym)
    if isinstance(v, WellV):
        return not (isinstance(v.r, int) and isinstance(v.c, int))
    return False
