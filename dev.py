import sys, time
sys.setrecursionlimit(10000)
from pyvc.engine import World
from pyvc import spec, prove
from pyvc.contract import verify_scenario
import importlib
def run(modname, only=None, timeout=10000):
    w = World(); w.spec_ns.update(spec.NS)
    m = importlib.import_module("contracts."+modname); m.install(w)
    for name, ct in w.contracts.items():
        if only and only not in name: continue
        for sc in ct.scenarios:
            t0=time.time()
            res = verify_scenario(w, ct, sc)
            print(f"== {name} [{sc.name}] paths={len(res)} {time.time()-t0:.2f}s")
            for r in res:
                print("  path", r.outcome, r.detail, [ (t,c) for t,c in r.trace][:12])
                for vc in r.vcs:
                    v = prove.discharge(vc, timeout)
                    extra = ""
                    if v.status=="refuted":
                        extra = str({k:v for k,v in prove._model_dict(v.model).items() if '!' not in k})[:300]
                    print(f"     {v.status:8s} {v.backend} {v.secs:.2f}s {vc.name} {extra}")
if __name__=="__main__":
    run(sys.argv[1], sys.argv[2] if len(sys.argv)>2 else None)
