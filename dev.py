import sys, time
sys.setrecursionlimit(20000)
from pyvc import prove
from pyvc.cli import load_world
from pyvc.contract import verify_scenario, verify_lemma
import importlib
def run(modname, only=None, timeout=10000, scen=None):
    w = load_world()
    import contracts
    before = None
    m = importlib.import_module("contracts."+modname)
    from pyvc.engine import World
    w2 = World(); m.install(w2)
    names = set(w2.contracts)
    for name, ct in w.contracts.items():
        if name not in names: continue
        if only and only not in name: continue
        for sc in ct.scenarios:
            if scen and scen not in sc.name: continue
            t0=time.time()
            res = verify_scenario(w, ct, sc)
            print(f"== {name} [{sc.name}] paths={len(res)} {time.time()-t0:.2f}s")
            for r in res:
                print("  path", r.outcome, r.detail, [ (t,c) for t,c in r.trace][-8:])
                for vc in r.vcs:
                    v = prove.discharge(vc, timeout)
                    extra = ""
                    if v.status=="refuted":
                        extra = str({k:v for k,v in prove._model_dict(v.model).items() if '!' not in k})[:400]
                    print(f"     {v.status:8s} {v.backend} {v.secs:.2f}s {vc.name} {extra}")
    for lem in w.lemmas:
        if lem.name.lower().startswith(modname.lower()):
            for r in verify_lemma(w, lem):
                for vc in r.vcs:
                    v = prove.discharge(vc, timeout); print(f"  lemma {v.status} {v.secs:.2f}s {vc.name}")
if __name__=="__main__":
    run(sys.argv[1], sys.argv[2] if len(sys.argv)>2 else None, scen=sys.argv[3] if len(sys.argv)>3 else None)
