#!/usr/bin/env python3
"""Runs, for every seeded change under /verif/seeded, the quick check of the property it breaks (in its own scratch
worktree of /repo, never /repo itself) and records what reported it: deductive obligations, static obligations,
native contract evaluation, bounded monitor.  Writes seeded/MATRIX.json."""
import json, os, re, subprocess, sys, concurrent.futures as cf

VERIF = os.path.dirname(os.path.dirname(os.path.abspath(__file__)))
FIXREV_PROP = {1: ["C06"], 2: ["C11"], 3: ["C11"], 4: ["C07"], 5: ["C03"], 6: ["C11"], 7: ["C05"], 8: ["C09"], 9: ["C09"], 10: ["C09"],
               11: ["C09"], 12: ["C13", "C10"], 13: ["C13", "C10"], 14: ["C14"], 15: ["C15"], 16: ["C17"], 17: ["C20"], 18: ["C20", "C02"], 19: ["C09"]}
EXTRA = {"C08_2": ["C03"], "C04_1": ["C20"], "C04_2": ["C01"], "C06_2": ["C09"], "C01_2": ["C05"], "C16_2": ["C11"], "C11_1": ["C11"]}


def run(job):
    name, prop, slot = job
    wt = f"/tmp/wt/mx{slot}"
    if not os.path.isdir(wt):
        subprocess.run(["git", "-C", "/repo", "worktree", "add", "-q", "--detach", wt, "HEAD"], check=False)
    subprocess.run(["git", "-C", wt, "checkout", "-q", "--", "."])
    head = subprocess.run(["git", "-C", "/repo", "rev-parse", "HEAD"], capture_output=True, text=True).stdout.strip()
    subprocess.run(["git", "-C", wt, "checkout", "-q", "--detach", head])
    patch = os.path.join(VERIF, "seeded", name, "patch.diff")
    ap = subprocess.run(["git", "-C", wt, "apply", patch], capture_output=True, text=True)
    if ap.returncode != 0:
        return {"mutant": name, "property": prop, "applies": False}
    env = dict(os.environ, PYVC_REPO=wt, PYVC_EVIDENCE_DIR=f"/tmp/wt/evidence_mx{slot}")
    p = subprocess.run(["./check", prop, "quick"], cwd=VERIF, env=env, capture_output=True, text=True)
    subprocess.run(["git", "-C", wt, "checkout", "-q", "--", "."])
    vio = [l for l in p.stdout.splitlines() if l.startswith("VIOLATION")]
    kinds = {"deductive": 0, "static": 0, "native": 0, "bounded": 0}
    obl = []
    for l in vio:
        rp = l.split("replay=")[1].split()[0]
        b = os.path.basename(rp)
        if b.startswith("bounded_"):
            kinds["bounded"] += 1
        elif b.startswith("native__"):
            kinds["native"] += 1
        elif b.startswith("static__"):
            kinds["static"] += 1
            obl.append(b[:-5])
        else:
            kinds["deductive"] += 1
            obl.append(b[:-5][:90])
    und = [l for l in p.stdout.splitlines() if l.startswith("UNDECIDED")]
    return {"mutant": name, "property": prop, "applies": True, "exit": p.returncode, "reported_by": kinds, "obligations": sorted(set(obl))[:6],
            "undecided": len(und), "confirmed_inputs": sum(1 for l in vio if "no-failing-input-found" not in l)}


def main():
    names = sorted(os.listdir(os.path.join(VERIF, "seeded")))
    jobs = []
    for n in names:
        if not os.path.isdir(os.path.join(VERIF, "seeded", n)):
            continue
        if n.startswith("fixrev_"):
            props = FIXREV_PROP[int(n.split("_")[1])]
        else:
            props = [n.split("_")[0]] + EXTRA.get(n, [])
        for p in props:
            jobs.append((n, p))
    if len(sys.argv) > 1 and sys.argv[1] == "--skip-done":
        done = {(r["mutant"], r["property"]) for r in json.load(open(os.path.join(VERIF, "seeded", "MATRIX.json")))}
        jobs = [j for j in jobs if j not in done]
        sys.argv = sys.argv[:1] + ["partial"]
    elif len(sys.argv) > 1:
        jobs = [j for j in jobs if any(a in j[0] or a == j[1] for a in sys.argv[1:])]
    slots = int(os.environ.get("MATRIX_SLOTS", "4"))
    # a queue served by `slots` workers, each with its own scratch worktree (never used by two jobs at once)
    import queue, threading
    q = queue.Queue()
    for j in jobs:
        q.put(j)
    out, lock = [], threading.Lock()

    def worker(slot):
        while True:
            try:
                n, p = q.get_nowait()
            except queue.Empty:
                return
            r = run((n, p, slot))
            with lock:
                out.append(r)
                print(json.dumps(r), flush=True)

    ths = [threading.Thread(target=worker, args=(s,)) for s in range(slots)]
    for t in ths:
        t.start()
    for t in ths:
        t.join()
    path = os.path.join(VERIF, "seeded", "MATRIX.json")
    old = {}
    if os.path.exists(path) and len(sys.argv) > 1:
        old = {(r["mutant"], r["property"]): r for r in json.load(open(path))}
    for r in out:
        old[(r["mutant"], r["property"])] = r
    json.dump(sorted(old.values(), key=lambda r: (r["mutant"], r["property"])), open(path, "w"), indent=1)


if __name__ == "__main__":
    main()
