#!/usr/bin/env python3
import json, os
V = os.path.dirname(os.path.dirname(os.path.abspath(__file__)))
rows = json.load(open(os.path.join(V, "seeded", "MATRIX.json")))
out = ["# Seeded changes x checks (quick tier, scratch worktrees)", "",
       "`deductive` / `static` = named obligations refuted; `native` = path-directed native evaluation of the contract; `bounded` = bounded monitor;",
       "`confirmed` = violations whose failing input was replayed on the real code; `undecided` = obligations/paths the deductive part could not decide under the change.", "",
       "| seeded change | summary | check | exit | deductive | static | native | bounded | confirmed | undecided | first obligations |", "|---|---|---|---|---|---|---|---|---|---|---|"]
for r in rows:
    meta = json.load(open(os.path.join(V, "seeded", r["mutant"], "meta.json")))
    summ = (meta.get("summary") or meta.get("fix_message") or "")[:90].replace("|", "/")
    if not r.get("applies", True):
        out.append(f"| {r['mutant']} | {summ} | {r['property']} | patch does not apply to HEAD | | | | | | | |")
        continue
    k = r["reported_by"]
    out.append(f"| {r['mutant']} | {summ} | {r['property']} | {r['exit']} | {k['deductive']} | {k['static']} | {k['native']} | {k['bounded']} | {r['confirmed_inputs']} | {r['undecided']} | {'; '.join(r['obligations'][:2])} |")
det = sum(1 for r in rows if r.get("exit") == 1)
out += ["", f"{det} of {sum(1 for r in rows if r.get('applies', True))} (change, check) pairs are reported (exit 1); "
        f"{sum(1 for r in rows if r.get('applies', True) and (r['reported_by']['deductive'] + r['reported_by']['static']) > 0)} by a deductive or static obligation."]
open(os.path.join(V, "seeded", "MATRIX.md"), "w").write("\n".join(out) + "\n")
print(out[-1])
