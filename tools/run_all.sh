#!/bin/bash
# runs every registered quick check on the unchanged tree (sequentially; each check uses all cores itself)
cd "$(dirname "$0")/.."
for p in $(python3 -c "import json; print(' '.join(c['property_id'] for c in json.load(open('MANIFEST.json'))['checks']))"); do
  s=$(date +%s); out=$(./check $p ${1:-quick} 2>&1); rc=$?; e=$(date +%s)
  echo "$p exit=$rc $((e-s))s :: $(echo "$out" | tail -1)"
  echo "$out" | grep -E "VIOLATION|UNDECIDED|INTERNAL|KNOWN" | head -5
done
