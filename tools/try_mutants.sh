#!/bin/bash
# usage: tools/try_mutants.sh <PROP> [dir-glob]   runs ./check PROP quick under each seeded mutant of that property
P=$1; G=${2:-/tmp/mut/${P}_?}
for d in $G; do
  out=$(tools/with_patch.sh $d/patch.diff -- ./check $P quick 2>&1); rc=$?
  echo "== $(basename $d) exit=$rc :: $(echo "$out" | grep -E 'VIOLATION|UNDECIDED|INTERNAL' | head -3 | tr '\n' '|')"
done
