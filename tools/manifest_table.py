FIX_COMMITS = ['75e0c35', 'c148090', 'f1d3e96', '2191062', '2a30adc', 'dead8ae', '09d65ec', 'cb13934', '39255ec', 'aea5bfd', 'ba4a076', 'c913951', '9e54e78', '4191a8b', 'e96a447', '4a5e29a', 'a70bc2e', 'f1b18c6']
CHECKS = {
 "C06": {
  "category": "proof",
  "technique": "contract-based deductive verification: pre/postconditions on the real Python source, VCs generated from its ast, discharged by z3",
  "text": "Postconditions (count == max(1, ceil(v/max_volume)), 0 < step <= max_volume, sum == v) of the real partition_volume body are proved for all real v >= 0 and all max_volume > 0 (int and float type-cases), path by path, by z3; a refuted obligation is replayed on the real function.",
  "note": "floats treated as reals; math.ceil encoded as the least integer above the quotient; numpy.sum of a constant block = value*length; engine's own model of Python semantics. Call sites in transfer / reagent_distribution are covered by other contracts as they are added.",
 },
}
NOT_APPLICABLE = {}
