FIX_COMMITS = ['75e0c35', 'c148090', 'f1d3e96', '2191062', '2a30adc', 'dead8ae', '09d65ec', 'cb13934', '39255ec', 'aea5bfd', 'ba4a076', 'c913951', '9e54e78', '4191a8b', 'e96a447', '4a5e29a', 'a70bc2e', 'f1b18c6']
CHECKS = {
 "C06": {
  "category": "proof",
  "technique": "contract-based deductive verification: pre/postconditions on the real Python source, VCs generated from its ast, discharged by z3",
  "text": "Postconditions (count == max(1, ceil(v/max_volume)), 0 < step <= max_volume, sum == v) of the real partition_volume body are proved for all real v >= 0 and all max_volume > 0 (int and float type-cases), path by path, by z3; a refuted obligation is replayed on the real function.",
  "note": "floats treated as reals; math.ceil encoded as the least integer above the quotient; numpy.sum of a constant block = value*length; engine's own model of Python semantics. Call sites in transfer / reagent_distribution are covered by other contracts as they are added.",
 },
}
CHECKS["C19"] = {
  "category": "proof",
  "technique": "contract-based deductive verification: pre/postconditions + exceptional postconditions on the real Python source, VCs from its ast, z3",
  "text": "For every int n and every well collection (list, 1-D array, 2-D array of symbolic shape) the real get_trough_wells body is proved to return exactly n ids with result[i] == colmajor(wells)[i mod len], to raise ValueError iff n < 0 or no wells, and TypeError for every non-int type-case of n.",
  "note": "numpy.asarray/flatten('F') and list repetition (xs*k)[i] == xs[i mod len xs] are library axioms; non-int type-cases of n enumerated: float, nan, None, str, numpy integer (bool is an int in Python and not in the universe).",
}
CHECKS["C10"] = {
  "category": "proof",
  "technique": "contract-based deductive verification: pre/postconditions, exceptional postconditions and a loop invariant on the real Python source; VCs from its ast, z3",
  "text": "int_to_tip: result is the Tip with value 2^(n-1) for 1<=n<=8, ValueError otherwise, for every int. prepare_aspirate_dispense_parameters: the returned tip field equals tipmask(tip) = sum over the eight tips of 2^(t-1)*[t is a member], for a Tip member, an int, lists of ints / Tip members of ANY length (loop invariant + finite-universe lemma for sum(set())), and mixed lists of length 2-3; every other type-case (0, 9, float, str, None, Tip.Any inside a collection) raises ValueError.",
  "note": "EVO script commands (evo_aspirate/evo_dispense/evo_wash tip_selection and slot order) are covered by the C13 contracts; the pair clause (both records of a transfer carry the same mask) by C07. sum(set(xs)) is modelled by the finite-universe identity over {1,2,4,..,128} (assumed library contract, side condition proved at the call site). bool tips are outside the universe.",
}
NOT_APPLICABLE = {}
