FIX_COMMITS = ['75e0c35', 'c148090', 'f1d3e96', '2191062', '2a30adc', 'dead8ae', '09d65ec', 'cb13934', '39255ec', 'aea5bfd', 'ba4a076', 'c913951', '9e54e78', '4191a8b', 'e96a447', '4a5e29a', 'a70bc2e', 'f1b18c6', '1763a12']
CHECKS = {
 "C06": {
  "category": "proof",
  "technique": "contract-based deductive verification: pre/postconditions on the real Python source, VCs generated from its ast, discharged by z3",
  "text": "Postconditions (count == max(1, ceil(v/max_volume)), 0 < step <= max_volume, sum == v) of the real partition_volume body are proved for all real v >= 0 and all max_volume > 0 (int and float type-cases), path by path, by z3; a refuted obligation is replayed on the real function.",
  "note": "floats treated as reals; math.ceil encoded as the least integer above the quotient; numpy.sum of a constant block = value*length; engine's own model of Python semantics. Call sites in transfer / reagent_distribution are covered by other contracts as they are added.",
 },
}
CHECKS["C19"] = {
  "category": "proof",
  "technique": "contract-based deductive verification: pre/postconditions + exceptional postconditions on the real Python source, VCs from its ast, z3",
  "text": "For every int n and every well collection (list, 1-D array, 2-D array of symbolic shape) the real get_trough_wells body is proved to return exactly n ids with result[i] == colmajor(wells)[i mod len], to raise ValueError iff n < 0 or no wells, and TypeError for every non-int type-case of n.",
  "note": "numpy.asarray/flatten('F') and list repetition (xs*k)[i] == xs[i mod len xs] are library axioms; non-int type-cases of n enumerated: float, nan, None, str, numpy integer (bool is an int in Python and not in the universe).",
}
CHECKS["C10"] = {
  "category": "proof",
  "technique": "contract-based deductive verification: pre/postconditions, exceptional postconditions and a loop invariant on the real Python source; VCs from its ast, z3",
  "text": "int_to_tip: result is the Tip with value 2^(n-1) for 1<=n<=8, ValueError otherwise, for every int. prepare_aspirate_dispense_parameters: the returned tip field equals tipmask(tip) = sum over the eight tips of 2^(t-1)*[t is a member], for a Tip member, an int, lists of ints / Tip members of ANY length (loop invariant + finite-universe lemma for sum(set())), and mixed lists of length 2-3; every other type-case (0, 9, float, str, None, Tip.Any inside a collection) raises ValueError.",
  "note": "EVO script commands (evo_aspirate/evo_dispense/evo_wash tip_selection and slot order) are covered by the C13 contracts; the pair clause (both records of a transfer carry the same mask) by C07. sum(set(xs)) is modelled by the finite-universe identity over {1,2,4,..,128} (assumed library contract, side condition proved at the call site). bool tips are outside the universe.",
}
CHECKS["C08"] = {
  "category": "proof",
  "technique": "contract-based deductive verification: postconditions of the real numbering functions against the spec function pos(r,c) = 1 + c*rows + r over a symbolic well-formed labware; bijection lemmas by z3",
  "text": "For every plate / trough geometry (rows 1..26, any number of columns) and every single-letter well id, the real EVO and Fluent get_well_position bodies are proved to return 1 + column_index*rows + row_index (virtual rows for EVO troughs; 1 + column_index for Fluent troughs), to agree with Labware._positions, and to raise ValueError for ids outside the labware; pos is proved a bijection onto 1..R*C with the stated inverse.",
  "note": "Well ids are an algebraic abstraction wid(row index, column number); the regex / f-string / list.index / int() steps on such ids are assumed library contracts (conformance-tested natively). The labware is assumed well-formed (wf(L), established by the constructor contract, C20). Malformed strings and the no-record-on-unknown-well clause are covered by the operation contracts (C03) and the bounded stand-in.",
}
CHECKS["C12"] = {
  "category": "proof",
  "technique": "contract-based deductive verification: recursive function with decreases clause, nested loops with inductive invariants over ghost state, VCs from the real Python ast, z3 (strings + nonlinear integers)",
  "text": "to_hex: hexval(result) == dec for every dec >= 0 (induction via the function's own contract, termination by decreases dec), exact digits for dec < 256. evo_get_selection: for all 1 <= rows, cols <= 255 and every 0/1 selection array the result equals the spec string hex2(cols) ++ hex2(rows) ++ evo_body(N div 7) ++ [partial group], where evo_body is defined by recursion (7 wells per character, column-major, LSB first, offset 48); length 4 + ceil(N/7). Both loops are cut by invariants (bit_counter = k mod 7, partial mask, completed groups) and proved for an arbitrary iteration.",
  "note": "The decoder direction (decode(spec string) = selection, injectivity, padding bits zero) follows from the bit-wise definition of evo_body/partial_mask; it is additionally validated by the native replay clause and is not a separate SMT lemma. a | 2^k == a + 2^k for a < 2^k and chr/ord are library axioms. len(evo_body(j)) == j is proved by induction as a lemma. evo_make_selection_array is covered through C13.",
}
CHECKS["C09"] = {
  "category": "proof",
  "technique": "contract-based deductive verification: postconditions (appended record == rope of the arguments in slot order, every field separator-free), exceptional postconditions (raise iff unrepresentable, nothing appended) on the real emitter bodies; modular use of the validation contract; z3 strings",
  "text": "For aspirate_well, dispense_well, reagent_distribution, comment, wash, decontaminate, flush, commit, set_diti the real body is proved, per type-case, to append exactly one record equal to the Tecan rope of its arguments (11 fields for A/D, 15 + sorted exclusions for R) whose fields contain no separator / line break (so split(';') returns the arguments: generic split/join lemma), to raise for exactly the unrepresentable argument tuples, and to leave the record list unchanged on every raise exit. prepare_aspirate_dispense_parameters is verified separately (C10 contract) and used here by its contract.",
  "note": "Number formatting (str(int), '.2f', str(float), numpy.round) is axiomatised by uninterpreted functions with separator-freeness; text fields are assumed printable (no line breaks) as in the property's quantifier; exclusion lists are proved for lengths 0..3 (symbolic contents); multi-line comments for 1 and 2 lines; bool positions/indices are outside the universe. The split/join inverse lemma is Lean's List.splitOn_intercalate (checked by lean in the thorough tier).",
}
CHECKS["C17"] = {
  "category": "proof",
  "technique": "contract-based deductive verification relative to an axiomatised file object: postconditions on the sequence of file operations and their arguments, extracted from the real Python ast, z3",
  "text": "save: for str and Path arguments, raises AssertionError iff the lower-cased file name does not END in .gwl, otherwise performs exactly unlink(missing_ok=True), open(path,'w',newline='\\r\\n',encoding latin_1), one write of '\\n'.join(records), close - so by the io axioms the file holds the records joined by CRLF, Latin-1, no trailing break, no residue. __exit__ saves iff a path is configured, for every exc_type, and never swallows the exception; __enter__ empties the list and returns self; __repr__/__str__ show the joined records.",
  "note": "Proof is relative to the io axioms (text-mode newline translation, 'w' truncation, latin_1 total on code points <= 255), which the native replay/bounded part exercises on a temp directory; Path.name and str.lower are uninterpreted functions. That records contain no line break is C09's postcondition.",
}
CHECKS["C02"] = {
  "category": "proof",
  "technique": "contract-based deductive verification: loop invariants + exceptional postconditions on the real Labware.add/remove bodies over a symbolic well-formed labware; VCs from the Python ast, z3",
  "text": "For every well-formed plate / trough, every history-independent pre-state and every argument shape (single well, lists of any length with repeats, 2-D arrays, scalar or per-well volumes) Labware.add / remove are proved to: leave every addressed well <= max_volume (>= min_volume), raise VolumeOverflowError / VolumeUnderflowError exactly when some step would cross the limit, with the offending step not applied (state == effect of the earlier steps only), raise AssertionError for negative / NaN volumes and KeyError for unknown wells; non-negativity follows from 0 <= min_volume. Worklist methods reach the volume array only through these two methods (frame obligations of the worklist contracts, C03).",
  "note": "float = real (exact-limit and beyond-limit are covered semantically over the reals; one-ulp effects of IEEE rounding are outside the model and exercised by the bounded part only). The labware is assumed well-formed (constructor contract C20). +inf volumes are covered by the bounded part.",
}
CHECKS["C04"] = {
  "category": "proof",
  "technique": "contract-based deductive verification: postcondition vol' == vol +/- contrib(wells, volumes) with contrib defined by recursion over the (well, volume) pairs; loop invariant with the partial sum; z3",
  "text": "Labware.add/remove: for every real well (r,c): vol'[r,c] == vol[r,c] +/- sum over the pairs i of volume_i*[well_i addresses (r,c)] - one statement giving the sum, the frame (untouched wells unchanged), repeats (one term per occurrence) and trough aliasing (every virtual row id maps to real row 0). Pairing is element-wise in column-major order, a single volume is broadcast. Proved for symbolic list lengths and 2-D shapes.",
  "note": "float = real; numpy flatten('F') / repeat are library axioms; index map of the labware from wf(L) (C20). aspirate/dispense hand their normalised arrays to remove/add unchanged (worklist contracts).",
}
CHECKS["C11"] = {
  "category": "other",
  "technique": "contract-based deductive verification of the labware half (log, condense_log, volumes, history, add, remove: postconditions on the label/history sequences incl. heap identity of snapshots) + bounded contract monitor for the operation-level clauses",
  "text": "Proved on the real bodies for a symbolic well-formed labware with a history of any length: add/remove append exactly one (label, copy of the volumes) entry and leave the history untouched on every raise exit; log appends a copy; condense_log(n) keeps the first len-n entries unchanged (same arrays, same labels), appends the last state and never aliases the live volume array; `volumes` returns a fresh equal array. The transfer/distribute clauses (exactly one entry per participating labware, LVH step count) are checked by the bounded monitor (seeded operation histories on real objects) until the transfer contract carries them.",
  "note": "Mixed level: deductive for the six labware functions, bounded (labelled, never counted as proved) for transfer/distribute and `report`. float = real; numpy copy() yields a fresh array with equal content (library axiom).",
}
CHECKS["C20"] = {
  "category": "other",
  "technique": "contract-based deductive verification of Labware.__init__ and Trough.__init__ (representation invariant wf(L) as postcondition, ValueError iff the specification is unrepresentable, per type-case), get_initial_composition and get_trough_component_names (one 100 % component per filled well / column, default names, rejected names) + bounded monitor for larger shapes",
  "text": "Proved on the real constructor body for symbolic rows, columns, virtual_rows, limits and initial volumes (absent, scalar, flat list of any length, 2-D of the labware's shape; nan / inf / None / float type-cases): a normal return establishes wf(L) - row/column ids, the well-id array, the index map (total on the grid, nothing else, troughs map every virtual row to real row 0), EVO positions, volumes laid out as given (scalar broadcast / row-major) within [0, max_volume], 0 <= min_volume < max_volume, history == [('initial', copy of the volumes)] - and ValueError is raised for exactly the other specifications. This is the wf(L) that the other contracts assume. Trough.__init__ (real body, with Labware.__init__, get_trough_component_names and get_initial_composition inlined) is proved for 1 and 2 columns with symbolic virtual_rows, limits, per-column / scalar volumes and names (absent, a str, lists with None entries, wrong lengths): the same wf(L) with every virtual row mapped to real row 0, per-column volumes, and exactly one 100 % component per filled column (given name, else <name>.column_NN on multi-column troughs, else the trough's name), ValueError otherwise. get_initial_composition / get_trough_component_names are proved on their own for 1x1 .. 2x2 and 3x1 well arrays / 1-3 columns with symbolic volumes and names.",
  "note": "Mixed level: in the proof of Labware.__init__ for symbolic shapes get_initial_composition enters through an opaque summary (its own contract is proved for concrete small shapes only; larger shapes: bounded monitor). The default name of single-row multi-column plates is not fixed by the property: either <name> or <name>.<well> is accepted. bool sizes are outside the universe; float = real.",
}
CHECKS["C01"] = {
  "category": "other",
  "technique": "contract-based deductive verification of the record-emitting operations (aspirate, dispense, distribute, transfer on small symbolic shapes; modular use of the Labware.add/remove, emitter and numbering contracts) + bounded replay monitor with an independent .gwl interpreter for operation sequences",
  "text": "Proved on the real bodies, for both devices, plates and troughs with symbolic geometry, well lists of ANY length (loop invariant over ghost functions counting / selecting the positive pairs) and 1-3 wells with symbolic labels / keyword arguments: aspirate/dispense append, after the label comment, exactly one A/D record per pair with a positive volume, in order, each naming the labware and the device-specific position of the well the operation named and the volume that the Labware tracking applied (remove/add contracts, C04), so replaying the records reproduces the tracked volumes (I_sync). Sequences of operations, large-volume splitting and compositions are explored by the bounded monitor (independent interpreter of the worklist format).",
  "note": "Mixed level; bounded parts are labelled in the evidence and never counted as proved. Known finding (Fluent distribute source range) is listed in known_findings.json. float = real; per-record rounding to 2 decimals is the `.2f` axiom.",
}
CHECKS["C03"] = {
  "category": "other",
  "technique": "contract-based deductive verification with exceptional postconditions at every raise exit (records appended so far are a prefix of the accepted steps; labware update precedes emission; step <= max_volume) + frame obligations + bounded fault-injection monitor",
  "text": "Proved on the real bodies: at every raise exit of aspirate / dispense (own raises, KeyError for unknown wells, VolumeUnderflow/OverflowError of the labware contract, ValueError / InvalidOperationError of the emitter contract) the record list is the old list plus a prefix of the records of the accepted update, and either nothing was appended or the labware already holds the accepted update; aspirate_well/dispense_well append nothing on a raise and every appended step has volume <= max_volume (InvalidOperationError otherwise); __exit__ saves whatever is in the list for every exc_type. Operation sequences with a failing last operation are explored by the bounded monitor (replay of the records after every operation and after the failure).",
  "note": "Mixed level: aspirate/dispense are proved for well lists of any length, distribute for 1-3 destinations, transfer for 1-2 triples without splitting; longer transfers, splitting and operation sequences are bounded. float = real.",
}
_BOUNDED_ONLY = {
 "C05": "Composition: exact-Fraction replay of seeded + enumerated operation histories (transfers incl. serial dilutions in one call, same-well, emptied-and-refilled wells, zero volumes, troughs, shared names) on real Labware/worklist objects; fractions finite, in [0,1], sum to 1, removal-invariant, component totals conserved; all naming configurations enumerated.",
 "C07": "Transfers: independent .gwl parser + own grouping model over all permutations of base triple sets, all wash schemes, partition modes, DiTi on/off, argument shapes (accepted and to-be-rejected), both devices; flows per (source, destination), A/D pairing, tip action and break records.",
 "C13": "EVO script commands: own parser of B;Aspirate/Dispense/Wash records and own selection-bitmap decoder; enumerated grid/site/arm/volume boundaries, all well x tip lists of length <= 2 over 13 tip tokens, seeded sessions against tracked volumes.",
 "C14": "DilutionPlan: grid + seeded random + boundary-pushed parameter sets checked clause by clause in Fractions; to_worklist executed on both devices with an independent A/D interpreter (known budget finding excluded).",
 "C15": "Well transforms: enumerated shapes / anchors / seeds / modes + seeded random sub-arrays (scalar, 1-D, 2-D) against own index arithmetic; inverses, bijections, shape preservation, fit refusal, seed determinism.",
 "C16": "EVO vs Fluent: seeded + enumerated operation programs run on both devices (and BaseWorklist), records compared field by field with the own trough numbering relation, volumes / compositions / histories / exception classes compared.",
 "C18": "Column partitioning: all triple lists of length <= 2 (3 thorough) over a collision-rich well set + seeded random lists up to 40 triples; multiset preservation, single column per group, ascending columns and rows; automatic mode rule on all labware-kind pairs.",
}
_C13 = _BOUNDED_ONLY.pop("C13")
CHECKS["C13"] = {
  "category": "other",
  "technique": "contract-based deductive verification of commands.evo_aspirate / evo_dispense (postcondition: command == EVOware rope of the arguments, selection called with the labware dimensions and the 0/1 array of exactly the given wells; raise iff the call cannot be expressed) ; evo_wash, require_single_column_selection and the EvoWorklist.evo_* methods (command appended after the tracked update, nothing appended on a raise, no step above the worklist's max_volume) + bounded monitor for longer lists and sessions",
  "text": "Proved on the real bodies for 1-2 wells/tips with symbolic ids, tips (ints and Tip members), scalar and per-tip volumes, grid/site/arm, liquid class: the returned command equals 'B;Aspirate|Dispense(mask,\"lc\",slot1..slot8,0,0,0,0,grid,site-1,1,\"sel\",0,arm);' with mask = OR of the tips, slot t = the 2-decimal volume paired with tip t (0 otherwise), and the selection string computed (C12 contract) from exactly the given wells; ValueError iff grid/site/arm/volume/liquid class are out of range, tips are not distinct ascending tips 1-8, wells are not strictly ascending within one column; InvalidOperationError iff a volume exceeds max_volume. " + _C13,
  "note": "Mixed level: require_single_column_selection is proved for arrays of any shape (numpy.any(axis=0).sum() modelled by the counting facts c>=1 iff some column, c>=2 iff two columns); evo_get_selection enters through its C12 contract. Lists longer than 2 wells/tips and operation sessions are bounded. bool/float grid, site, arm are outside the universe.",
}
_C16 = _BOUNDED_ONLY.pop("C16")
CHECKS["C16"] = {
  "category": "other",
  "technique": "relational (product-program) reasoning by syntactic alignment of the two real transfer bodies + hierarchy/frame obligations over the ast + contracts of the device-specific numbering (C08) and of the refusing base methods; bounded differential monitor",
  "text": "Relational obligations over the real source: EvoWorklist.transfer and FluentWorklist.transfer are statement-by-statement the same program except for the body of the deprecated wash_scheme=None branch (excluded by the property) and assert-vs-raise for incompatible lengths (complementary conditions); both resolve their helpers to the same definitions; neither class overrides a shared method; FluentWorklist.__init__ forwards unchanged; the device-specific numbering is used only for the position argument of A/D records and the destination range of R records, where the two get_well_position contracts (C08) differ exactly on troughs; BaseWorklist._get_well_position / transfer are proved to always raise TypeError / CompatibilityError with nothing appended. " + _C16,
  "note": "Mixed: the relational part is syntactic after normalisation (docstrings, annotations, logger calls, exception messages, names of locals are ignored; statements aligned by a sequence diff); equal programs over equal callees are equivalent: a sufficient condition - any other semantics-preserving edit of only one copy fails the named statement obligation and has to be re-aligned; the end-to-end agreement on operation programs is explored by the bounded differential monitor. Known finding: Fluent distribute source range (C01).",
}
_C07 = _BOUNDED_ONLY.pop("C07")
CHECKS["C07"] = {
  "category": "other",
  "technique": "contract-based deductive verification of both real transfer bodies on small symbolic shapes (exact record sequence, tracking, history, abort prefix; modular use of the aspirate/dispense/add/remove/emitter contracts; real partition_by_column / optimize_partition_by / partition_volume code inlined) + bounded monitor for larger shapes and splitting",
  "text": "Proved for EvoWorklist.transfer and FluentWorklist.transfer with 1 triple (quick) and 2 triples (thorough) of symbolic wells / volumes / label, plates and troughs, same-labware transfers, wash schemes 1-4 / flush / reuse, DiTi mode, partition modes, pass-through liquid_class and tip, no splitting needed: the appended records are exactly comment + for each triple with a positive volume, in partition order, [A record, D record with the same volume / liquid class / tip mask, tip action]; source and destination volumes change by exactly the requested amounts; each participating labware gains exactly one history entry labelled with the label, earlier entries untouched; on every raise exit the records are a prefix of that sequence. " + _C07,
  "note": "Mixed: symbolic shapes are small (1-2 triples) and volumes below max_volume (no LVH split) in the deductive part; permutations of longer lists, splitting, break records and rejection of malformed arguments are explored by the bounded monitor. Known finding C11 (labels 'first'/'last') excluded by precondition.",
}
_C15 = _BOUNDED_ONLY.pop("C15")
CHECKS["C15"] = {
  "category": "other",
  "technique": "contract-based deductive verification of WellShifter / WellRotator (objects built by symbolically executing the real constructors; loop invariants; element-wise geometric postconditions; inverse / bijection lemmas by z3) + bounded monitor for WellRandomizer",
  "text": "Proved on the real bodies for symbolic plate shapes, anchors and well arrays (0-d, 1-D of any length, 2-D of any shape): WellShifter.__init__ raises KeyError / ValueError exactly when the anchor is off plate B / plate A does not fit, otherwise stores the anchor's offsets; shift / unshift return an array of the same shape with every id moved by (+/-dr, +/-dc) (index bounds follow from the constructor's check), KeyError for ids off the plate; rotate_cw maps (r,c) to (c, R-1-r), rotate_ccw to (C-1-c, r), same shape; lemmas: ccw after cw and four cw rotations are the identity, cw is injective and stays on the transposed plate, unshift after shift is the identity. " + _C15,
  "note": "Mixed: WellRandomizer (permutation from numpy's RandomState; determinism by seed is a property of the library) is covered by the bounded monitor only. unshift is specified on the image of shift.",
}
_C18 = _BOUNDED_ONLY.pop("C18")
CHECKS["C18"] = {
  "category": "other",
  "technique": "contract-based deductive verification: optimize_partition_by against its decision table (all trough / non-trough x mode cases, functional postcondition); partition_by_column on lists of 0-3 symbolic triples (multiset of triples preserved, one column per group, columns and rows ascending) by symbolic execution of the real body incl. defaultdict / sorted / argsort models; bounded monitor for longer lists",
  "text": "Proved: optimize_partition_by returns 'destination' exactly for (auto, trough source, non-trough destination) or an explicit 'destination', 'source' otherwise, ValueError for every other mode name, for all four labware-kind combinations. partition_by_column, for every list of 0-3 triples of symbolic well ids (rows A-Z, columns 1-99) and volumes, returns groups that contain exactly the input triples as a multiset with the three parallel lists aligned, each group in one column of the partitioning side, groups in strictly ascending column order, rows ascending within a group; ValueError for other mode names on non-empty input. " + _C18,
  "note": "Mixed: list lengths above 3 are covered by the bounded monitor. numpy.argsort is modelled as 'a sorting permutation' (ties explored in given order for n<=2, by branching otherwise), sorted() by a sorting network, string order of two-digit column suffixes = numeric order (columns 1..99 as in the property).",
}
_C05 = _BOUNDED_ONLY.pop("C05")
CHECKS["C05"] = {
  "category": "other",
  "technique": "contract-based deductive verification: combine_composition against the ideal mixing function (all components, shared names), Labware.add's composition branch (mixture at the addressed real well, frame on all other wells and components), get_well_composition, removal invariance as a frame clause of remove; mixing algebra lemmas (nonlinear real arithmetic, z3) + bounded exact-Fraction monitor for histories and naming",
  "text": "Proved on the real bodies: combine_composition returns None iff an input is None, otherwise exactly the components of A and B with fraction (vA*fA + vB*fB)/(vA+vB) (0 for absent), normalised and within [0,1] when the inputs are (dicts of 0-2 symbolic components with possibly shared names); Labware.add with a composition sets, at the addressed real well (troughs: the aliased one), every component to that mixture with the well's previous volume, keeps fractions summing to 1, leaves every other well and component untouched, changes nothing when rejected or when the well stays empty; remove never touches the composition (frame); get_well_composition returns exactly the positive fractions. Lemmas: mixture bounded, normalised, component amount conserved ((vA+vB)*mix == vA*fA + vB*fB). " + _C05,
  "note": "Mixed: histories of operations (serial dilutions, conservation across labware) are explored by the bounded monitor. Initial naming: get_initial_composition and get_trough_component_names are proved for small concrete shapes (1x1..2x2, 3x1; 1-3 columns) with symbolic volumes and names, larger shapes bounded. Symbolic labware carries two named components; incoming liquids 0-2 components ({} = untracked liquid dilutes). float = real.",
}
_C14 = _BOUNDED_ONLY.pop("C14")
CHECKS["C14"] = {
  "category": "exploration",
  "technique": "bounded runtime-contract monitor (stand-in) for the plan and its execution; contract-based deductive verification only of the argument-validation prefix of DilutionPlan.__init__ (the planning loops are NumPy vector code over exp/log/linspace, outside the verifier's reach)",
  "text": _C14 + " Deductive part (small): for every parameter tuple the constructor raises ValueError when stock < xmax, when vmax has a length other than 1 or C, or when the mode is neither 'log' nor 'linear', and past that prefix none of these conditions holds (prefix completeness); nothing else of this property is proved.",
  "note": "Level exploration: the property is decided by the bounded monitor (counts in the evidence); the few discharged obligations are reported separately and cover only the three argument rejections. Known finding: over-drawn source columns (known_findings.json).",
}
for _pid, _txt in _BOUNDED_ONLY.items():
    CHECKS[_pid] = {
        "category": "exploration",
        "technique": "bounded runtime-contract monitor (stand-in): property-level oracles evaluated on the real code for enumerated + seeded inputs; the deductive contracts for this property's functions are not discharged yet",
        "text": _txt + " This is the bounded stand-in of the contract-based approach, labelled as such; nothing here is counted as proved.",
        "note": "Bounded: holds only for the inputs explored (bounds and counts in the evidence). Oracles are independent re-implementations (own parser / interpreter / Fraction arithmetic). See DESIGN.md section 5 for the contracts planned for this property.",
        "design_ref": "DESIGN.md section 2.9 and 5." + _pid,
    }
NOT_APPLICABLE = {}
