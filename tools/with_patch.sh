#!/bin/bash
# usage: tools/with_patch.sh <patch> [-R] -- <cmd...>
# applies the patch to a scratch worktree of /repo (never to /repo itself) and runs cmd with PYVC_REPO pointing at it
P="$1"; shift; REV=""
if [ "$1" = "-R" ]; then REV="-R"; shift; fi
shift
WT=${PYVC_SCRATCH:-/tmp/wt/mt}
if [ ! -d "$WT" ]; then git -C /repo worktree add -q --detach "$WT" HEAD || exit 9; fi
git -C "$WT" checkout -q --detach "$(git -C /repo rev-parse HEAD)" 2>/dev/null
git -C "$WT" checkout -q -- . 
git -C "$WT" apply $REV "$P" || { echo "patch does not apply"; exit 9; }
PYVC_REPO="$WT" PYVC_EVIDENCE_DIR=/tmp/wt/evidence_mt "$@"; rc=$?
git -C "$WT" checkout -q -- .
exit $rc
