#!/bin/bash
# usage: tools/with_patch.sh <patch> [-R] -- <cmd...>   applies the patch to /repo, runs cmd, restores /repo
P="$1"; shift; REV=""
if [ "$1" = "-R" ]; then REV="-R"; shift; fi
shift
git -C /repo diff --quiet || { echo "/repo dirty"; exit 9; }
git -C /repo apply $REV "$P" || { echo "patch does not apply"; exit 9; }
"$@"; rc=$?
git -C /repo checkout -- . 
exit $rc
