#!/usr/bin/env python3
"""Regenerates MANIFEST.json from the table below (keeps it valid at all times)."""
import json, os, sys
VERIF = os.path.dirname(os.path.dirname(os.path.abspath(__file__)))
sys.path.insert(0, VERIF)
from tools.manifest_table import CHECKS, NOT_APPLICABLE, FIX_COMMITS

props = [json.loads(l) for l in open(os.path.join(VERIF, "properties.jsonl"))]
ids = [p["id"] for p in props]
checks = []
for pid in ids:
    if pid in CHECKS:
        c = CHECKS[pid]
        checks.append({
            "property_id": pid,
            "quick_cmd": f"./check {pid} quick",
            "thorough_cmd": f"./check {pid} thorough",
            "evidence_file": f"evidence/{pid}.json",
            "replay_cmd_template": "./check --replay {path}",
            "engine": "pyvc",
            "level_claimed": {"category": c["category"], "text": c["text"], "design_ref": c.get("design_ref", f"DESIGN.md section 5.{pid}")},
            "level_note": c["note"],
            "technique": c["technique"],
        })
na = [{"property_id": pid, "reason": NOT_APPLICABLE.get(pid, "check not built yet in this round; see DESIGN.md section 5 for the planned contracts")} for pid in ids if pid not in CHECKS]
m = {
    "version": 1,
    "setup_cmd": "./setup.sh",
    "hooks": {
        "guard": "ROBOTOOLS_VERIF",
        "enable": "no hooks: contracts are sidecar files under /verif/contracts and the verifier reads /repo's source; ROBOTOOLS_VERIF is unused by /repo",
        "baseline_off_cmd": "cd /repo && /venv/bin/python -m pytest -ra -q -p no:cacheprovider --timeout=900 --continue-on-collection-errors",
        "source_commits": [],
        "add_only": True,
    },
    "engines": [{"name": "pyvc", "path": "pyvc/", "serves_properties": sorted(CHECKS), "kind_free_text": "contract-based deductive verifier built here: sidecar contracts + symbolic execution of the Python ast of /repo's real source into verification conditions, discharged by z3 (cvc5 CLI for unknowns); counter-models are replayed on the real code under /venv/bin/python; bounded runtime-contract stand-ins (labelled) where a function is outside the deductive subset"}],
    "checks": checks,
    "not_applicable": na,
    "notes": "fix: commits in /repo (genuine defects repaired, see known_findings.json): " + ", ".join(FIX_COMMITS),
}
json.dump(m, open(os.path.join(VERIF, "MANIFEST.json"), "w"), indent=1)
print("MANIFEST.json written:", len(checks), "checks,", len(na), "not_applicable")
